M = "emitters/mocks_emitter.py"
G = "visit/endpoint/generators/mock_generator.py"
V = "visit/endpoint/endpoint_visitor.py"
MUTANTS = [
    dict(name="mocks-first-tag-only", file=M, expect="R13.2",
         old='            tags = operation.tags or ["default"]\n', new='            tags = (operation.tags or ["default"])[:1]\n'),
    dict(name="mocks-raw-tag-key", file=M, expect="R13.2",
         old="                key = NameSanitizer.normalize_tag_key(tag)\n                tag_key_to_ops", new="                key = tag\n                tag_key_to_ops"),
    dict(name="mocks-keyed-by-normalised-key", file=M, expect="R13.2",
         old="            canonical_tag_name = max(tag_key_to_candidates[key], key=tag_score)\n            operations_by_tag[canonical_tag_name] = tag_key_to_ops[key]", new="            operations_by_tag[key] = tag_key_to_ops[key]"),
    dict(name="mocks-canonical-first-spelling", file=M, expect="R13.2",
         old="            canonical_tag_name = max(tag_key_to_candidates[key], key=tag_score)", new="            canonical_tag_name = tag_key_to_candidates[key][0]"),
    dict(name="mock-class-name-other-sanitizer", file=M, expect="R13.4",
         old='                class_name = NameSanitizer.sanitize_class_name(canonical_tag_name) + "Client"', new='                class_name = NameSanitizer.sanitize_tag_class_name(canonical_tag_name)'),
    dict(name="mock-nature-from-ir", file=G, expect="R13.5",
         old='                        is_async_generator = "AsyncIterator" in full_sig', new="                        is_async_generator = any(resp.stream for resp in op.responses)"),
    dict(name="mock-body-without-raise-for-generators", file=G, expect="R13.3",
         old='                writer.write_line(f"raise NotImplementedError({error_msg})")\n\n                # For async generators, add unreachable yield for type checker\n                if is_async_generator:\n                    writer.write_line("yield  # pragma: no cover")',
         new='                if is_async_generator:\n                    writer.write_line("yield  # pragma: no cover")\n                else:\n                    writer.write_line(f"raise NotImplementedError({error_msg})")'),
    dict(name="protocol-own-signature", file=V, expect="R13.1",
         old="            full_method_code = method_generator.generate(op, context)\n\n            # Parse the generated code to extract method signatures",
         new="            full_method_code = method_generator.generate(op, context)\n            full_method_code = method_generator.generate(op, context)\n\n            # Parse the generated code to extract method signatures"),
    dict(name="mocks-without-schema-registry", file="emitters/mocks_emitter.py", expect="R13.1",
         old="EndpointVisitor(context.parsed_schemas or {})", new="EndpointVisitor()"),
]
MUTANTS.append(dict(name="signature-writer-wraps-return-annotation", file="core/writers/code_writer.py", expect="R13.6",
    old='            if return_type:\n                self.write_line(f") -> {return_type}:")\n',
    new='            if return_type:\n                outer, bracket, inner = return_type.partition("[")\n                if bracket and len(return_type) > 90:\n                    self.write_line(f") -> {outer}[")\n                    self.write_line(inner[:-1])\n                    self.write_line("]:")\n                else:\n                    self.write_line(f") -> {return_type}:")\n'))
MUTANTS.append(dict(name="content-type-param-memo-keyed-by-content-type-only", file="visit/endpoint/generators/overload_generator.py", expect="R13.7",
    old='        Returns:\n            Dictionary with \'name\' and \'type\' keys\n        """\n', new='        Returns:\n            Dictionary with \'name\' and \'type\' keys\n        """\n        if content_type not in self._content_type_params:\n            self._content_type_params[content_type] = self._map_content_type_param(content_type, schema, context)\n        return self._content_type_params[content_type]\n\n    def _map_content_type_param(self, content_type: str, schema: Any, context: RenderContext) -> dict[str, str]:\n', also=('        self.docstring_generator = EndpointDocstringGenerator(self.schemas)\n', '        self.docstring_generator = EndpointDocstringGenerator(self.schemas)\n        self._content_type_params: dict = {}\n')))
MUTANTS.append(dict(name="handler-sorts-ir-responses-in-place", file='visit/endpoint/generators/response_handler_generator.py', expect="R13.8", old='        other_responses = [r for r in op.responses if not (processed_primary_success and r == primary_success_ir)]\n', new='        declared_responses = op.responses\n        declared_responses.sort(key=lambda r: (not r.status_code.isdigit(), r.status_code))\n        other_responses = [r for r in declared_responses if not (processed_primary_success and r == primary_success_ir)]\n'))
MUTANTS.append(dict(name='protocol-nature-reads-a-counter', file='visit/endpoint/endpoint_visitor.py', expect='R13.5', old='                            is_async_generator = "AsyncIterator" in sig_stripped\n', new='                            is_async_generator = "AsyncIterator" in sig_stripped and i > 0\n'))
MUTANTS.append(dict(name='path-parameters-marked-required-while-rendering', file='visit/endpoint/processors/parameter_processor.py', expect='R13.8', old='        for param in op.parameters:\n', new='        for param in op.parameters:\n            if param.param_in == "path" and not param.required:\n                # OpenAPI: path parameters are always required. Tolerate specs that leave the flag out, so that the\n                # signature, the URL template and the synthesised path variables below agree\n                param.required = True\n'))
MUTANTS.append(dict(name='range-primary-arm-removed', file='visit/endpoint/generators/response_handler_generator.py', expect='R13.10', old='        # A primary success response declared as the range \'2XX\' is matched after the exact codes\n        if primary_success_ir and not processed_primary_success and primary_success_ir.status_code.upper() == "2XX":\n            writer.write_line("case _ if 200 <= response.status_code < 300:")\n            writer.indent()\n            if strategy.return_type == "None":\n                writer.write_line("return None")\n            else:\n                self._write_strategy_based_return(writer, strategy, context)\n            writer.dedent()\n\n', new=''))
