SP = "core/parsing/schema_parser.py"
UCD = "core/parsing/unified_cycle_detection.py"
EX = "core/loader/schemas/extractor.py"
MUTANTS = [
    dict(name="drop-finally-exit", file=SP, expect="R8.1",
         old="    finally:\n        context.unified_exit_schema(schema_name)\n",
         new="    finally:\n        pass\n"),
    dict(name="drop-exit-on-create-placeholder", file=SP, expect="R8.1",
         old="        context.unified_exit_schema(schema_name)  # Balance the enter call\n        created_placeholder",
         new="        created_placeholder"),
    dict(name="extra-exit-before-resolved-return", file=SP, expect="R8.1",
         old="            return resolved_schema\n",
         new="            context.unified_exit_schema(schema_name)\n            return resolved_schema\n"),
    dict(name="exit-with-other-name", file=SP, expect="R8.1",
         old="    finally:\n        context.unified_exit_schema(schema_name)\n",
         new="    finally:\n        context.unified_exit_schema(sanitized_schema_name)\n"),
    dict(name="early-return-before-try-without-exit", file=SP, expect="R8.1",
         old="    sanitized_schema_name = NameSanitizer.sanitize_class_name(schema_name) if schema_name else None\n\n    try:",
         new="    sanitized_schema_name = NameSanitizer.sanitize_class_name(schema_name) if schema_name else None\n    if schema_node is None:\n        return IRSchema(name=sanitized_schema_name)\n\n    try:"),
    dict(name="foreign-depth-reset", file="core/parsing/keywords/all_of_parser.py", expect="R8.2",
         old="def _process_all_of(", new="def _reset(context):\n    context.unified_cycle_context.recursion_depth = 0\n\n\ndef _process_all_of("),
    dict(name="check-before-increment", file=UCD, expect="R8.4",
         old="    context.recursion_depth += 1\n\n    result = unified_cycle_check(schema_name, context)\n",
         new="    result = unified_cycle_check(schema_name, context)\n    context.recursion_depth += 1\n"),
    dict(name="depth-test-after-continue", file=UCD, expect="R8.4",
         old="    if context.recursion_depth > max_depth:", new="    if schema_name in context.schema_stack and context.recursion_depth > max_depth:"),
    dict(name="exit-no-decrement", file=UCD, expect="R8.5",
         old="    if context.recursion_depth > 0:\n        context.recursion_depth -= 1\n", new="    pass\n"),
    dict(name="exit-no-completed", file=UCD, expect="R8.5",
         old="        context.schema_states[schema_name] = SchemaState.COMPLETED\n", new="        pass\n"),
    dict(name="postcondition-dropped", file=EX, expect="R8.6",
         old="            raise RuntimeError(f\"Schema '{n}' (sanitized: '{sanitized_n}') was not parsed\")\n",
         new="            logger.warning(f\"Schema '{n}' (sanitized: '{sanitized_n}') was not parsed\")\n"),
    dict(name="exit-completes-only-stacked-schemas", file=UCD, expect="R8.5",
         old="    if schema_name and schema_name in context.schema_stack:\n        context.schema_stack.remove(schema_name)\n", new="    if not schema_name or schema_name not in context.schema_stack:\n        return\n    context.schema_stack.remove(schema_name)\n"),
]
MUTANTS.append(dict(name="depth-placeholder-dropped-before-reparse", file='core/loader/schemas/extractor.py', expect="R8.8", old='        if n not in context.parsed_schemas and n not in context.registered_keys_by_raw_name:\n            _parse_schema(n, nd, context, allow_self_reference=True)\n', new="        if n in context.parsed_schemas and getattr(context.parsed_schemas[n], '_max_depth_exceeded_marker', False):\n            context.parsed_schemas.pop(n)\n        if n not in context.parsed_schemas and n not in context.registered_keys_by_raw_name:\n            _parse_schema(n, nd, context, allow_self_reference=True)\n"))
MUTANTS.append(dict(name='exit-gives-back-two-units', file='core/parsing/unified_cycle_detection.py', expect='R8.9', old='        context.recursion_depth -= 1\n', new='        context.recursion_depth -= 2\n'))
MUTANTS.append(dict(name='default-depth-limit-400', file='core/parsing/context.py', expect='R8.10', old='os.environ.get("PYOPENAPI_MAX_DEPTH", 150)', new='os.environ.get("PYOPENAPI_MAX_DEPTH", 400)'))
MUTANTS.append(dict(name='anonymous-schemas-not-cut-at-the-depth-limit', file='core/parsing/schema_parser.py', expect='R8.4', old='    # The tracker only bounds named schemas. Anonymous ones (inline oneOf / anyOf / allOf members, additionalProperties\n    # values) nest as deep as the document does: cut them at the depth limit too, before the interpreter stack is\n    # exhausted. A `$ref` node continues: its target is a named schema, which the tracker bounds itself.\n    if (\n        schema_name is None\n        and isinstance(schema_node, Mapping)\n        and "$ref" not in schema_node\n        and context.unified_cycle_context.recursion_depth\n        > int(os.environ.get("PYOPENAPI_MAX_DEPTH", context.unified_cycle_context.max_depth))\n    ):\n        context.unified_exit_schema(schema_name)  # Balance the enter call\n        return IRSchema(type="object", description="[Maximum recursion depth exceeded]", _max_depth_exceeded_marker=True)\n\n', new=''))
