"""Mutant self-test (thorough tier): each mutant is a single textual edit of a scratch copy of
src/pyopenapi_gen (made under a temp dir outside /repo and /verif, removed afterwards); the
property's rules are re-run on the copy and must report a violation of the expected rule that the
unmodified tree does not have. A mutant whose anchor text is no longer present is *skipped* (the
source moved on), never a failure. A surviving mutant means the checker is weak: ANALYSIS-ERROR."""
from __future__ import annotations

import importlib
import os
import shutil
import tempfile
from concurrent.futures import ProcessPoolExecutor
from typing import Dict, List, Optional, Tuple

from sa.model import Repo
from sa.report import Report, load_known


def _run_rules(prop: str, root: str) -> Tuple[List[Tuple[str, str]], List[str]]:
    rep = Report(prop, "quick")
    mod = importlib.import_module(f"rules.{prop.lower()}")
    try:
        mod.run(Repo(root), rep, "quick")
    except Exception as e:  # analysis error on the mutant counts as "noticed" only if flagged
        rep.error(f"{type(e).__name__}: {e}")
    return [(i.rule, i.full_key()) for i in rep.instances if not i.ok], rep.errors


def _one(args) -> Dict:
    prop, name, relfile, old, new, expect, count, also = args
    tmp = tempfile.mkdtemp(prefix="verif_mut_")
    try:
        src = os.path.join(tmp, "src")
        shutil.copytree("/repo/src/pyopenapi_gen", os.path.join(src, "pyopenapi_gen"),
                        ignore=shutil.ignore_patterns("__pycache__"))
        path = os.path.join(src, "pyopenapi_gen", relfile)
        if not os.path.exists(path):
            return {"name": name, "status": "skipped", "why": f"{relfile} missing"}
        text = open(path).read()
        if text.count(old) != count:
            return {"name": name, "status": "skipped", "why": f"anchor text occurs {text.count(old)}x (expected {count})"}
        text2 = text.replace(old, new, 1) if also == "first-only" else text.replace(old, new)
        if also == "first-only":
            also = None
        if also:
            if text2.count(also[0]) < 1:
                return {"name": name, "status": "skipped", "why": "second anchor missing"}
            # the last occurrence (the function edited above is the last one using this idiom)
            i = text2.rindex(also[0])
            text2 = text2[:i] + also[1] + text2[i + len(also[0]):]
        try:
            compile(text2, path, "exec")
        except SyntaxError as e:
            return {"name": name, "status": "skipped", "why": f"mutant does not compile: {e}"}
        open(path, "w").write(text2)
        viol, errors = _run_rules(prop, tmp)
        return {"name": name, "status": "ran", "viol": viol, "errors": errors, "expect": expect}
    finally:
        shutil.rmtree(tmp, ignore_errors=True)


def run_for_property(prop: str, rep: Report) -> None:
    try:
        mm = importlib.import_module(f"selftest.mutants_{prop.lower()}")
    except ModuleNotFoundError:
        rep.notes.append("selftest: no mutants registered for this property")
        return
    muts = mm.MUTANTS
    base = {(i.rule, i.full_key()) for i in rep.instances if not i.ok}
    jobs = [(prop, m["name"], m["file"], m["old"], m["new"], m["expect"], m.get("count", 1), m.get("also")) for m in muts]
    with ProcessPoolExecutor(max_workers=min(16, max(1, len(jobs)))) as ex:
        results = list(ex.map(_one, jobs))
    killed = survived = skipped = 0
    table = []
    for r in results:
        if r["status"] == "skipped":
            skipped += 1
            table.append({"mutant": r["name"], "result": "skipped", "why": r["why"]})
            continue
        new = [(rule, key) for rule, key in r["viol"] if (rule, key) not in base]
        hit = [k for rule, k in new if rule == r["expect"]]
        if hit:
            killed += 1
            table.append({"mutant": r["name"], "result": "killed", "by": hit[0][:200]})
        else:
            survived += 1
            table.append({"mutant": r["name"], "result": "SURVIVED", "expected_rule": r["expect"],
                          "new_violations": [k[:120] for _, k in new][:5], "errors": r["errors"][:3]})
    rep.count("selftest", {"mutants": len(muts), "killed": killed, "survived": survived, "skipped": skipped, "table": table})
    print(f"[{prop}] selftest: {len(muts)} mutants, killed={killed} survived={survived} skipped={skipped}")
    for t in table:
        if t["result"] == "SURVIVED":
            print(f"  SELFTEST-SURVIVOR {t['mutant']} expected {t['expected_rule']}; got {t['new_violations']} {t['errors']}")
    # a surviving mutant is an analysis error of this run - unless the tree under test already has violations that are not listed known
    # findings (a seeded / broken tree: the self-test then only adds noise to a run that fails anyway)
    known_keys = {k["key"] for k in load_known().get("findings", []) if k.get("property") == prop}
    unlisted = {b for b in base if b[1] not in known_keys}
    if survived and not unlisted:
        rep.error(f"selftest: {survived} mutant(s) survived - the rules are weaker than claimed")
