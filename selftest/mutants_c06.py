T = "core/http_transport.py"
H = "visit/endpoint/generators/response_handler_generator.py"
MUTANTS = [
    dict(name="transport-guard-is_error", file=T, expect="R6.1",
         old="if response.status_code < 200 or response.status_code >= 300:", new="if response.is_error:"),
    dict(name="transport-guard-off-by-one", file=T, expect="R6.1",
         old="if response.status_code < 200 or response.status_code >= 300:", new="if response.status_code < 200 or response.status_code > 300:"),
    dict(name="transport-guard-ge-400", file=T, expect="R6.1",
         old="if response.status_code < 200 or response.status_code >= 300:", new="if response.status_code >= 400:"),
    dict(name="transport-4xx-range-short", file=T, expect="R6.2",
         old="if 400 <= response.status_code < 500:", new="if 400 <= response.status_code < 430:"),
    dict(name="transport-swapped-classes", file=T, expect="R6.2",
         old="                error_class = ClientError\n", new="                error_class = ServerError\n"),
    dict(name="transport-raise-drops-response", file=T, expect="R6.5",
         old="raise error_class(status_code=response.status_code, message=response.text, response=response)",
         new="raise error_class(status_code=response.status_code, message=response.text)"),
    dict(name="httperror-drops-status", file="core/exceptions.py", expect="R6.5",
         old="        self.status_code = status_code\n", new=""),
    dict(name="catchall-logs-instead-of-raise", file=H, expect="R6.3",
         old="            writer.write_line(\n                'raise HTTPError(response=response, message=\"Unhandled status code\", status_code=response.status_code)'\n            )",
         new="            writer.write_line('return None  # unhandled')"),
    dict(name="declared-error-returns-none", file=H, expect="R6.3",
         old='                    writer.write_line(f"raise {error_class_name}(response=response)")',
         new='                    writer.write_line("return None")'),
    dict(name="alias-for-all-non2xx", file=H, expect="R6.4",
         old="                elif is_error_code(status_code_val):", new="                elif status_code_val >= 300:"),
    dict(name="visitor-client-range-wrong", file="core/http_status_codes.py", expect="R6.4",
         old="    return 400 <= code < 500", new="    return 400 <= code <= 500"),
    dict(name="emitter-bases-swapped", file="emitters/exceptions_emitter.py", expect="R6.4",
         old='                base_class = "ClientError"', new='                base_class = "ServerError"'),
    dict(name="alias-init-drops-response", file="visit/exception_visitor.py", expect="R6.5",
         old='"    super().__init__(status_code=response.status_code, message=response.text, response=response)"',
         new='"    super().__init__(status_code=response.status_code, message=response.text)"'),
]
MUTANTS.append(dict(name="alias-only-for-registered-names", file=H, expect="R6.2",
    old="                elif is_error_code(status_code_val):", new="                elif status_code_val in HTTP_EXCEPTION_NAMES:"))
MUTANTS += [
    dict(name="shared-core-by-string-prefix", file="emitters/exceptions_emitter.py", expect="R6.6",
         old="        return bool(self.overall_project_root)\n",
         new="        if not self.overall_project_root:\n            return False\n        from pathlib import Path\n        core_path = Path(core_dir).resolve()\n        project_root = Path(self.overall_project_root).resolve()\n        client_dir = project_root.joinpath(*(client_package_name or '').split('.'))\n        return not str(core_path).startswith(str(client_dir))\n"),
    dict(name="error-code-helper-unbounded", file="core/http_status_codes.py", expect="R6.4", old="    return 400 <= code < 600", new="    return code >= 400"),
    dict(name="error-message-decoded-strictly", file="core/http_transport.py", expect="R6.5", old="message=response.text", new="message=response.content.decode()"),
]
MUTANTS.append(dict(name="component-responses-parsed-once-per-name", file='core/loader/operations/parser.py', expect='R6.7', old='                        resp_node_resolved = raw_responses.get(ref_name, {}) or rn_node\n', new='                        if ref_name not in shared_responses:\n                            shared_responses[ref_name] = parse_response(\n                                str(sc),\n                                raw_responses.get(ref_name, {}) or rn_node,\n                                context,\n                                operation_id_for_promo=operation_id,\n                            )\n                        resps.append(shared_responses[ref_name])\n                        continue\n', also=('    ops: List[IROperation] = []\n', '    ops: List[IROperation] = []\n    shared_responses: dict = {}\n')))
MUTANTS.append(dict(name='server-error-import-conditional', file='visit/exception_visitor.py', expect='R6.9', old='        context.add_import(f"{context.core_package_name}.exceptions", "ServerError")\n', new='        if spec.operations:\n            context.add_import(f"{context.core_package_name}.exceptions", "ServerError")\n'))
MUTANTS.append(dict(name='registry-rescue-only-one-level-deep', file='generator/client_generator.py', expect='R6.10', old='                if registry_path.is_file() and (core_dir == out_dir or out_dir in core_dir.parents):\n', new='                if registry_path.is_file() and out_dir in (core_dir, core_dir.parent):\n'))
MUTANTS.append(dict(name='transport-follows-redirects', file='core/http_transport.py', expect='R6.11', old='        request_args["headers"] = prepared_headers\n', new='        request_args["headers"] = prepared_headers\n        # Gateways answer a missing trailing slash or an http:// base URL with a redirect to the canonical URL\n        request_args.setdefault("follow_redirects", True)\n'))
MUTANTS.append(dict(name='classified-tail-removed', file='visit/endpoint/generators/response_handler_generator.py', expect='R6.12', old='        default_response = next((r for r in op.responses if r.status_code == "default"), None)\n        default_returns = bool(default_response and default_response.content and strategy.return_type != "None")\n\n        # Remaining 4xx/5xx (undeclared, or declared as \'4XX\'/\'5XX\' or by a default without content): classified errors.\n        # A default response that is returned as a value answers the ranges the document does not declare itself.\n        declared_codes = {r.status_code.upper() for r in op.responses}\n        if not default_returns or "4XX" in declared_codes:\n            context.add_import(f"{context.core_package_name}.exceptions", "ClientError")\n            writer.write_line("case _ if 400 <= response.status_code < 500:")\n            writer.indent()\n            writer.write_line(\n                "raise ClientError(response=response, message=response.text, status_code=response.status_code)"\n            )\n            writer.dedent()\n        if not default_returns or "5XX" in declared_codes:\n            context.add_import(f"{context.core_package_name}.exceptions", "ServerError")\n            writer.write_line("case _ if 500 <= response.status_code < 600:")\n            writer.indent()\n            writer.write_line(\n                "raise ServerError(response=response, message=response.text, status_code=response.status_code)"\n            )\n            writer.dedent()\n\n        # Handle default case\n        if default_response:\n            writer.write_line("case _:  # Default response")\n            writer.indent()\n            if default_returns:\n', new='        # Handle default case\n        default_response = next((r for r in op.responses if r.status_code == "default"), None)\n        if default_response:\n            writer.write_line("case _:  # Default response")\n            writer.indent()\n            if default_response.content and strategy.return_type != "None":\n'))
