#!/venv/bin/python
"""Behaviour-preserving variants of /repo ("passing twins" of the mutants): every edit here keeps the property true, so every
check must stay silent on it.  Not part of a registered check (the tree under test may legitimately no longer contain the
anchor text); run by hand / by tools after changing a rule:

    selftest/benign.py [--ids E1,E4] [--props C03,C16] [-j 16]

Edit format (one JSON object per line in selftest/benign_edits.jsonl):
    {"id": "E1", "props": ["C03", "C16"], "note": "...", "steps": [
        {"file": "core/cattrs_converter.py", "func": "_make_dataclass_structure_fn", "rename": {"cls": "klass"}},
        {"file": "core/utils.py", "old": "<exact text>", "new": "<exact text>", "count": 1}]}
`rename` = whole-word replacement inside the source lines of function `func` (qualname: `Class.method`, `outer.inner`);
`old`/`new` = exact text replacement (`count` occurrences expected, default 1).
"""
from __future__ import annotations

import argparse
import ast
import json
import os
import re
import shutil
import subprocess
import sys
import tempfile
from concurrent.futures import ProcessPoolExecutor

HERE = os.path.dirname(os.path.abspath(__file__))
EDITS = os.path.join(HERE, "benign_edits.jsonl")
SRC = "/repo/src/pyopenapi_gen"


def _find_func(tree: ast.AST, qual: str):
    parts = qual.split(".")
    nodes = [tree]
    for p in parts:
        nxt = []
        for n in nodes:
            for c in ast.walk(n):
                if isinstance(c, (ast.FunctionDef, ast.AsyncFunctionDef, ast.ClassDef)) and c.name == p and c is not n:
                    nxt.append(c)
        if not nxt:
            return None
        nodes = nxt[:1]
    return nodes[0]


def apply_edit(edit: dict, dest_pkg: str) -> str | None:
    """Apply to the package copy at dest_pkg; returns an error string or None."""
    for st in edit["steps"]:
        path = os.path.join(dest_pkg, st["file"])
        if not os.path.exists(path):
            return f"{st['file']} missing"
        text = open(path).read()
        if "rename" in st:
            tree = ast.parse(text)
            fn = _find_func(tree, st["func"])
            if fn is None:
                return f"function {st['func']} not found in {st['file']}"
            # positions of Name / arg nodes (never attributes or keyword-argument names) inside the function
            lines = text.split("\n")
            edits = []
            for old, new in st["rename"].items():
                pos = []
                for n in ast.walk(fn):
                    if isinstance(n, ast.Name) and n.id == old:
                        pos.append((n.lineno, n.col_offset))
                    elif isinstance(n, ast.arg) and n.arg == old:
                        pos.append((n.lineno, n.col_offset))
                    elif isinstance(n, (ast.FunctionDef, ast.AsyncFunctionDef)) and n.name == old and n is not fn:
                        pos.append((n.lineno, n.col_offset + (10 if isinstance(n, ast.AsyncFunctionDef) else 4)))
                    elif isinstance(n, (ast.Global, ast.Nonlocal)) and old in n.names:
                        return f"rename {old}: global/nonlocal not supported"
                if not pos:
                    return f"rename {old}: no occurrence in {st['func']}"
                edits += [(l, c, old, new) for l, c in pos]
            for l, c, old, new in sorted(set(edits), reverse=True):
                line = lines[l - 1]
                bcol = len(line.encode()[:c].decode()) if not line.isascii() else c
                if line[bcol:bcol + len(old)] != old:
                    return f"rename {old}: position mismatch at {l}:{c}"
                lines[l - 1] = line[:bcol] + new + line[bcol + len(old):]
            text = "\n".join(lines)
        if "old" in st:
            cnt = st.get("count", 1)
            if text.count(st["old"]) != cnt:
                return f"anchor text occurs {text.count(st['old'])}x (expected {cnt}) in {st['file']}"
            text = text.replace(st["old"], st["new"])
        try:
            compile(text, path, "exec")
        except SyntaxError as e:
            return f"does not compile: {e}"
        open(path, "w").write(text)
    return None


def run_one(edit: dict) -> dict:
    d = tempfile.mkdtemp(prefix="benign_")
    try:
        os.makedirs(os.path.join(d, "repo", "src"))
        shutil.copytree(SRC, os.path.join(d, "repo", "src", "pyopenapi_gen"), ignore=shutil.ignore_patterns("__pycache__"))
        err = apply_edit(edit, os.path.join(d, "repo", "src", "pyopenapi_gen"))
        if err:
            return {"id": edit["id"], "status": "skipped", "why": err}
        res = {}
        lines = []
        for prop in edit["props"]:
            env = dict(os.environ, VERIF_NO_EVIDENCE="1")
            p = subprocess.run([os.path.join(HERE, "..", "check"), prop, "--tier", "quick", "--repo", os.path.join(d, "repo")],
                               capture_output=True, text=True, env=env, cwd=os.path.join(HERE, ".."))
            out = p.stdout
            v = [l for l in out.splitlines() if l.startswith("  R") and "VIOLATION" not in l]
            if p.returncode == 1:
                res[prop] = "V"
                lines += [l[:220] for l in out.splitlines() if l.startswith("  R")][:3]
            elif p.returncode == 2:
                res[prop] = "AE"
                lines += [l[:220] for l in out.splitlines() if "ANALYSIS-ERROR" in l][:2]
            else:
                res[prop] = "ok"
                lines += [l[:160] for l in out.splitlines() if l.startswith("NOTE:")][:2]
        worst = "V" if "V" in res.values() else "AE" if "AE" in res.values() else "ok"
        return {"id": edit["id"], "status": worst, "per_prop": res, "lines": lines}
    finally:
        shutil.rmtree(d, ignore_errors=True)


def main() -> int:
    ap = argparse.ArgumentParser()
    ap.add_argument("--ids")
    ap.add_argument("--props")
    ap.add_argument("--edits", default=EDITS)
    ap.add_argument("-j", type=int, default=16)
    ap.add_argument("-v", action="store_true")
    a = ap.parse_args()
    edits = [json.loads(l) for l in open(a.edits) if l.strip() and not l.startswith("#")]
    if a.ids:
        want = set(a.ids.split(","))
        edits = [e for e in edits if e["id"] in want]
    if a.props:
        want = set(a.props.split(","))
        edits = [dict(e, props=[p for p in e["props"] if p in want]) for e in edits if set(e["props"]) & want]
    with ProcessPoolExecutor(a.j) as ex:
        results = list(ex.map(run_one, edits))
    tally: dict[str, int] = {}
    for r in results:
        tally[r["status"]] = tally.get(r["status"], 0) + 1
        if r["status"] != "ok" or a.v:
            print(f"{r['id']:8s} {r['status']:8s} {r.get('per_prop', r.get('why'))}")
            for l in r.get("lines", []):
                print("          ", l)
    print("benign variants:", len(results), tally)
    return 0 if set(tally) <= {"ok"} else 1


if __name__ == "__main__":
    sys.exit(main())
