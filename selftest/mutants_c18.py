F = "core/streaming_helpers.py"
MUTANTS = [
    dict(name="sse-manual-text-splitting", file=F, expect="R18.1",
         old="    event_lines: list[str] = []\n    async for line in response.aiter_lines():\n        if line == \"\":",
         new="    event_lines: list[str] = []\n    async for chunk in response.aiter_text():\n      for line in chunk.splitlines():\n        if line == \"\":"),
    dict(name="ndjson-raw-bytes", file=F, expect="R18.1",
         old="    async for line in response.aiter_lines():\n        line = line.strip()",
         new="    async for raw in response.aiter_bytes():\n        line = raw.decode()\n        line = line.strip()"),
    dict(name="sse-no-final-flush", file=F, expect="R18.2",
         old="    # Last event (if any)\n    if event_lines:\n        event = _parse_sse_event(event_lines)\n        if event:\n            yield event\n",
         new="    # Last event (if any)\n"),
    dict(name="sse-no-reset", file=F, expect="R18.2",
         old="                    yield event\n                event_lines = []\n", new="                    yield event\n"),
    dict(name="sse-reset-before-parse", file=F, expect="R18.2",
         old="            if event_lines:\n                event = _parse_sse_event(event_lines)\n                if event:\n                    yield event\n                event_lines = []\n",
         new="            if event_lines:\n                event_lines = []\n                event = _parse_sse_event(event_lines)\n                if event:\n                    yield event\n"),
    dict(name="sse-dispatch-on-every-line", file=F, expect="R18.2",
         old="        if line == \"\":\n            # End of event\n", new="        if line == \"\" or len(event_lines) >= 1:\n            # End of event\n"),
    dict(name="sse-drop-lines-conditionally", file=F, expect="R18.2",
         old="        elif not line.startswith(\":\"):\n", new="        elif not line.startswith(\":\") and not line.startswith(\" \"):\n"),
    dict(name="sse-parsed-not-yielded", file=F, expect="R18.2",
         old="                event = _parse_sse_event(event_lines)\n                if event:\n                    yield event\n                event_lines = []",
         new="                event = _parse_sse_event(event_lines)\n                event_lines = []"),
    dict(name="parse-join-space", file=F, expect="R18.3", old='data="\\n".join(data)', new='data=" ".join(data)'),
    dict(name="parse-comment-after-fields", file=F, expect="R18.3",
         old="        if line.startswith(\":\"):\n            continue  # comment\n", new=""),
    dict(name="parse-data-last-wins", file=F, expect="R18.3",
         old="                data.append(value)\n", new="                data = [value]\n"),
    dict(name="parse-split-all-colons", file=F, expect="R18.3",
         old='field, value = line.split(":", 1)', new='field, value = line.split(":")[:2]'),
    dict(name="ndjson-buffering", file=F, expect="R18.4",
         old="        line = line.strip()\n        if line:\n            yield json.loads(line)\n",
         new="        line = line.strip()\n        if line and not line.endswith(','):\n            yield json.loads(line)\n"),
    dict(name="parse-joined-data-rstripped", file=F, expect="R18.3", old='data="\\n".join(data)', new='data="\\n".join(data).rstrip("\\n")'),
]
MUTANTS.append(dict(name="sse-event-gains-len", file='core/streaming_helpers.py', expect="R18.5",
    old='    def __repr__(self) -> str:\n        return f"SSEEvent(data=', new='    def __len__(self) -> int:\n        return len(self.data)\n\n    def __repr__(self) -> str:\n        return f"SSEEvent(data='))
MUTANTS.append(dict(name='sse-field-split-needs-space', file='core/streaming_helpers.py', expect='R18.3', old='            field, value = line.split(":", 1)\n', new='            field, _, value = line.partition(": ")\n'))
MUTANTS.append(dict(name='sse-lines-stripped', file='core/streaming_helpers.py', expect='R18.6', old='        if line == "":\n            # End of event\n', new='        line = line.strip()\n        if line == "":\n            # End of event\n'))
MUTANTS.append(dict(name='sse-buffer-in-class-attribute', file='core/streaming_helpers.py', expect='R18.7', old='async def iter_sse(response: httpx.Response) -> AsyncIterator[SSEEvent]:\n    """Parse Server-Sent Events (SSE) from a streaming response."""\n    event_lines: list[str] = []\n    async for line in response.aiter_lines():\n        if line == "":\n            # End of event\n            if event_lines:\n                event = _parse_sse_event(event_lines)\n                if event:\n                    yield event\n                event_lines = []\n        elif not line.startswith(":"):\n            # Comment lines (keep-alives) are ignored: a block of comments only is not an event\n            event_lines.append(line)\n    # Last event (if any)\n    if event_lines:\n        event = _parse_sse_event(event_lines)\n        if event:\n            yield event\n', new='class _PendingEvent:\n    """The lines received so far for the event block that is still open."""\n\n    lines: List[str] = []\n\n    def take(self) -> SSEEvent | None:\n        """Parse the open block (if any) and start a new one."""\n        if not self.lines:\n            return None\n        event = _parse_sse_event(self.lines)\n        self.lines.clear()\n        return event\n\n\nasync def iter_sse(response: httpx.Response) -> AsyncIterator[SSEEvent]:\n    """Parse Server-Sent Events (SSE) from a streaming response."""\n    pending = _PendingEvent()\n    async for line in response.aiter_lines():\n        if line == "":\n            # End of event\n            event = pending.take()\n            if event:\n                yield event\n        else:\n            pending.lines.append(line)\n    # Last event (if any)\n    event = pending.take()\n    if event:\n        yield event\n'))
MUTANTS.append(dict(name='sse-comment-lines-collected-again', file='core/streaming_helpers.py', expect='R18.8', old='        elif not line.startswith(":"):\n', new='        else:\n'))
