SP = "core/parsing/schema_parser.py"
AO = "core/parsing/keywords/all_of_parser.py"
DG = "visit/model/dataclass_generator.py"
MUTANTS = [
    dict(name="resolved-placeholder-returned-late", file=SP, expect="R2.1",
         old="        # Don't register synthetic primitive type schemas as standalone schemas\n", new="        if schema_ir._max_depth_exceeded_marker and schema_name in context.parsed_schemas:\n            return context.parsed_schemas[schema_name]\n        # Don't register synthetic primitive type schemas as standalone schemas\n"),
    dict(name="cycle-storage-by-suffix", file="core/parsing/unified_cycle_detection.py", expect="R2.2",
         old="        should_store_placeholder = (\n            is_synthetic_schema\n", new="        should_store_placeholder = (\n            is_synthetic_schema\n            or schema_name.endswith(\"Response\")\n"),
    dict(name="properties-skip-readonly", file=SP, expect="R2.3",
         old="        if prop_name in parsed_props:  # Already handled by allOf or a previous definition, skip", new="        if isinstance(prop_schema_node, Mapping) and prop_schema_node.get(\"readOnly\"):\n            continue\n        if prop_name in parsed_props:  # Already handled by allOf or a previous definition, skip"),
    dict(name="allof-required-only-members-skipped", file=AO, expect="R2.3",
         old="        if sub_schema_ir.properties:\n            for prop_name, prop_schema_val in sub_schema_ir.properties.items():\n                if prop_name not in merged_properties:\n                    merged_properties[prop_name] = prop_schema_val\n        if sub_schema_ir.required:\n            merged_required.update(sub_schema_ir.required)\n",
         new="        if not sub_schema_ir.properties:\n            continue\n        for prop_name, prop_schema_val in sub_schema_ir.properties.items():\n            if prop_name not in merged_properties:\n                merged_properties[prop_name] = prop_schema_val\n        merged_required.update(sub_schema_ir.required)\n"),
    dict(name="allof-first-member-only", file=AO, expect="R2.3",
         old="        parsed_all_of_components.append(sub_schema_ir)\n        if sub_schema_ir.properties:", new="        parsed_all_of_components.append(sub_schema_ir)\n        if len(parsed_all_of_components) > 1 and sub_schema_ir._is_circular_ref:\n            continue\n        if sub_schema_ir.properties:"),
    dict(name="generator-skips-private-props", file=DG, expect="R2.3",
         old="                is_required = prop_name in schema.required\n\n                # Sanitize the property name", new="                is_required = prop_name in schema.required\n                if prop_name.startswith(\"_\"):\n                    continue\n\n                # Sanitize the property name"),
    dict(name="required-from-nullable", file=DG, expect="R2.4",
         old="                is_required = prop_name in schema.required\n\n                # Sanitize", new="                is_required = prop_name in schema.required and not prop_schema.is_nullable\n\n                # Sanitize"),
    dict(name="registration-skips-enums", file=SP, expect="R2.6",
         old="            and not is_synthetic_primitive\n        )\n        if should_register and schema_name:", new="            and not is_synthetic_primitive\n            and not schema_ir.enum\n        )\n        if should_register and schema_name:"),
    dict(name="parse-leaves-tracker-entered", file="core/parsing/schema_parser.py", expect="R2.7",
         old="    finally:\n        context.unified_exit_schema(schema_name)\n",
         new="    finally:\n        pass\n"),
    dict(name="additional-properties-drops-self-reference-flag", file="core/parsing/schema_parser.py", expect="R2.9",
         old="                    additional_props_node,\n                    context,\n                    max_depth_override,\n                    allow_self_reference,\n                )", new="                    additional_props_node,\n                    context,\n                    max_depth_override,\n                )"),
    dict(name="field-collision-counter", file="visit/model/dataclass_generator.py", expect="R2.8",
         old="                    while field_name in seen_field_names:\n                        field_name = f\"{base_field_name}_{suffix}\"\n                        suffix += 1\n",
         new="                    field_name = f\"{base_field_name}_{suffix}\"\n"),
    dict(name="cycle-flags-before-registration", file="core/parsing/schema_parser.py", expect="R2.6",
         old="        is_primitive_schema = schema_ir.type in [\"string\", \"integer\", \"number\", \"boolean\"] and not schema_ir.enum\n",
         new="        if schema_name and any(ci.cycle_path and ci.cycle_path[0] == schema_name for ci in context.unified_cycle_context.detected_cycles):\n            schema_ir._from_unresolved_ref = True\n        is_primitive_schema = schema_ir.type in [\"string\", \"integer\", \"number\", \"boolean\"] and not schema_ir.enum\n"),
]
MUTANTS.append(dict(name="registry-lookup-by-lowercased-name", file='types/resolvers/schema_resolver.py', expect="R2.10",
    old="        if schema.name and schema.name in self.ref_resolver.schemas:\n            target_schema = self.ref_resolver.schemas[schema.name]\n",
    new="        if schema.name and schema.name.capitalize() in self.ref_resolver.schemas:\n            target_schema = self.ref_resolver.schemas[schema.name.capitalize()]\n"))
MUTANTS.append(dict(name="cycle-heuristic-loses-item-exemption", file="core/parsing/unified_cycle_detection.py", expect="R2.2",
    old='name.startswith(schema_name) and name != schema_name and not name.endswith("Item")', new='name.startswith(schema_name) and name != schema_name'))
MUTANTS.append(dict(name="by-name-fallback-ignores-own-kind", file='types/resolvers/schema_resolver.py', expect="R2.11", old='            if target_schema is not schema and not is_other_kind:\n', new="            if target_schema is not schema:\n"))
MUTANTS.append(dict(name="declared-schema-skipped-by-sanitised-name", file='core/loader/schemas/extractor.py', expect="R2.10", old='        if n not in context.parsed_schemas and n not in context.registered_keys_by_raw_name:\n            _parse_schema(n, nd, context, allow_self_reference=True)\n',
    new="        if n not in context.parsed_schemas and NameSanitizer.sanitize_class_name(n) not in context.parsed_schemas:\n            _parse_schema(n, nd, context, allow_self_reference=True)\n"))
MUTANTS.append(dict(name='alias-decision-forgets-properties', file='visit/model/model_visitor.py', expect='R2.12', old='            and not schema.properties\n            and not is_enum\n', new='            and not is_enum\n'))
MUTANTS.append(dict(name='oneof-filter-drops-typed-members', file='core/parsing/keywords/one_of_parser.py', expect='R2.13', old='            s.type is None\n            and not s.properties\n', new='            not s.properties\n'))
MUTANTS.append(dict(name="sanitised-key-not-tested-against-declared-names", file='core/parsing/schema_parser.py', expect="R2.14", old="            if registration_key != schema_name and registration_key in context.raw_spec_schemas:\n                registration_key = schema_name\n", new=""))
MUTANTS.append(dict(name="registration-key-not-recorded-for-raw-name", file='core/parsing/schema_parser.py', expect="R2.15", old="            context.registered_keys_by_raw_name[schema_name] = registration_key\n", new=""))
MUTANTS.append(dict(name="ref-lookup-bypasses-raw-name-index", file='core/parsing/schema_parser.py', expect="R2.15", old="    parsed_key = context.registered_keys_by_raw_name.get(ref_name, ref_name)\n", new="    parsed_key = ref_name\n"))
MUTANTS.append(dict(name="ref-resolved-by-sanitised-name", file='core/parsing/schema_parser.py', expect="R2.10", old="    parsed_key = context.registered_keys_by_raw_name.get(ref_name, ref_name)\n", new="    parsed_key = NameSanitizer.sanitize_class_name(ref_name)\n"))
MUTANTS.append(dict(name='name-fallback-merges-integer-and-number', file='types/resolvers/schema_resolver.py', expect='R2.11', old='            target_type = getattr(target_schema, "type", None)\n            is_other_kind = schema_type in ("string", "integer", "number", "boolean") and target_type != schema_type\n', new='            # (JSON has a single numeric kind: "integer" and "number" compare as the same kind)\n            target_type = getattr(target_schema, "type", None)\n            json_kind = {"integer": "number"}\n            is_other_kind = schema_type in ("string", "integer", "number", "boolean") and json_kind.get(\n                target_type, target_type\n            ) != json_kind.get(schema_type, schema_type)\n'))
MUTANTS.append(dict(name='inline-enum-prefix-dropped-without-sibling-test', file='core/parsing/schema_parser.py', expect='R2.16', old='                    # e.g., Entry + entry_specific_role -> EntrySpecificRole (not EntryEntrySpecificRole),\n                    # unless a sibling property (Entry + specific_role) already owns that name\n                    if sanitized_prop_name.lower().startswith(parent_schema_name.lower()) and not any(\n                        f"{parent_schema_name}{NameSanitizer.sanitize_class_name(other)}" == sanitized_prop_name\n                        for other in properties_node\n                        if isinstance(other, str) and other and other != prop_name\n                    ):\n', new='                    # e.g., Entry + entry_specific_role -> EntrySpecificRole (not EntryEntrySpecificRole)\n                    if sanitized_prop_name.lower().startswith(parent_schema_name.lower()):\n'))
