U = "visit/endpoint/generators/url_args_generator.py"
R = "visit/endpoint/generators/request_generator.py"
MUTANTS = [
    dict(name="query-location-renamed", file=U, expect="R4.1",
         old='        query_params_to_write = [p for p in ordered_params if p.get("param_in") == "query"]', new='        query_params_to_write = [p for p in ordered_params if p.get("param_in") == "querystring"]'),
    dict(name="standard-call-params-none", file=R, expect="R4.2",
         old='            args_list.append("params=params")', new='            args_list.append("params=None")'),
    dict(name="standard-call-headers-none", file=R, expect="R4.2",
         old='            args_list.append("headers=headers")  # Assumes headers dict is defined', new='            args_list.append("headers=None")'),
    dict(name="query-key-sanitised-name", file=U, expect="R4.3",
         old='            query_key_literal = json.dumps(original_param_name, ensure_ascii=False)  # wire name as a Python literal', new='            query_key_literal = json.dumps(param_var_name, ensure_ascii=False)  # wire name as a Python literal'),
    dict(name="header-value-other-var", file=U, expect="R4.3",
         old='            param_var_name = NameSanitizer.sanitize_method_name(\n                p_info["name"]\n            )  # Sanitized name used in method signature', new='            param_var_name = NameSanitizer.sanitize_method_name(\n                p_info["original_name"]\n            )  # Sanitized name used in method signature'),
    dict(name="optional-sent-as-none", file=U, expect="R4.5",
         old='            if p.get("required", False):\n                writer.write_line(\n                    f"    {query_key_literal}', new='            if True:\n                writer.write_line(\n                    f"    {query_key_literal}'),
    dict(name="op-level-override-dropped", file="core/loader/operations/parser.py", expect="R4.4",
         old="                    params = [p for p in params if not (p.name == op_param.name and p.param_in == op_param.param_in)]\n", new=""),
    dict(name="path-names-not-reserved", file="visit/endpoint/processors/parameter_processor.py", expect="R4.4",
         old='            if param.param_in != "path":\n                taken_names |= path_param_names\n', new=""),
    dict(name="url-builder-other-sanitizer", file=U, expect="R4.6",
         old="NameSanitizer.sanitize_method_name(str(m.group(1)))", new="NameSanitizer.sanitize_module_name(str(m.group(1)))"),
    dict(name="body-only-for-payload-verbs", file=R, expect="R4.8",
         old="        if op.request_body:\n            if primary_content_type == \"application/json\":", new="        if op.request_body and op.method.upper() in (\"POST\", \"PUT\", \"PATCH\"):\n            if primary_content_type == \"application/json\":"),
    dict(name="json-body-wrong-variable", file=R, expect="R4.8",
         old='                args_list.append("json=json_body")  # Assumes json_body is defined', new='                args_list.append("json=body_json")  # Assumes json_body is defined'),
    dict(name="request-header-loses-to-transport-default", file="core/http_transport.py", expect="R4.9",
         old="            prepared_headers.update(current_request_kwargs[\"headers\"])\n",
         new="            prepared_headers = {**current_request_kwargs[\"headers\"], **prepared_headers}\n"),
    dict(name="override-by-name-only", file="core/loader/operations/parser.py", expect="R4.4",
         old="params = [p for p in params if not (p.name == op_param.name and p.param_in == op_param.param_in)]", new="params = [p for p in params if p.name != op_param.name]"),
    dict(name="path-names-reserved-raw", file="visit/endpoint/processors/parameter_processor.py", expect="R4.4",
         old='path_param_names = {NameSanitizer.sanitize_method_name(p.name) for p in op.parameters if p.param_in == "path"}', new='path_param_names = {p.name for p in op.parameters if p.param_in == "path"}'),
    dict(name="path-names-reserved-for-everyone", file="visit/endpoint/processors/parameter_processor.py", expect="R4.4",
         old='            if param.param_in != "path":\n                taken_names |= path_param_names\n', new='            taken_names |= path_param_names\n'),
]
MUTANTS.append(dict(name='url-path-loses-trailing-slash', file='visit/endpoint/generators/url_args_generator.py', expect='R4.12', old='        return f\'f"{{self.base_url}}{formatted_path}"\'\n', new='        return f\'f"{{self.base_url}}{formatted_path.rstrip("/")}"\'\n'))
MUTANTS.append(dict(name='overload-impl-url-path-lowercased', file='visit/endpoint/generators/endpoint_method_generator.py', expect='R4.12', old='str(m.group(1)))}}}", op.path\n', new='str(m.group(1)))}}}", op.path.lower()\n'))
MUTANTS.append(dict(name='overload-impl-dispatches-on-content-type', file='visit/endpoint/generators/endpoint_method_generator.py', expect='R4.13', old='                writer.write_line(f"if {param_info[\'name\']} is not None:")\n', new='                writer.write_line(f"if content_type == {content_type!r}:")\n'))
MUTANTS.append(dict(name='none-elements-dropped-from-lists', file='core/utils.py', expect='R4.14', old='            The object with None values removed from dicts\n        """\n        if isinstance(obj, dict):\n            return {k: DataclassSerializer._remove_none_values(v) for k, v in obj.items() if v is not None}\n        elif isinstance(obj, list):\n            return [DataclassSerializer._remove_none_values(item) for item in obj]\n', new='            The object with None values removed from dicts and lists\n        """\n        if isinstance(obj, dict):\n            return {k: DataclassSerializer._remove_none_values(v) for k, v in obj.items() if v is not None}\n        elif isinstance(obj, list):\n            return [DataclassSerializer._remove_none_values(item) for item in obj if item is not None]\n'))
MUTANTS.append(dict(name='private-fields-skipped-in-unstructure-registration', file='core/cattrs_converter.py', expect='R4.15', old='    # Recursively register hooks for nested dataclass fields\n\n    try:\n        type_hints = get_type_hints(cls)\n    except Exception:\n        # If type hints cannot be resolved (e.g. missing imports), fall back to field.type\n        type_hints = {}\n\n    for field in dataclasses.fields(cls):\n', new='    # Recursively register hooks for nested dataclass fields\n\n    try:\n        type_hints = get_type_hints(cls)\n    except Exception:\n        # If type hints cannot be resolved (e.g. missing imports), fall back to field.type\n        type_hints = {}\n\n    for field in dataclasses.fields(cls):\n        # Private storage (the `_data` of generated wrapper types) is written out by the wrapper\'s own hook\n        if field.name.startswith("_"):\n            continue\n\n'))
