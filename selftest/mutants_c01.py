MUTANTS = [
    dict(name="dataclass-import-dropped", file="core/writers/python_construct_renderer.py", expect="R1.1",
         old='        context.add_import("dataclasses", "dataclass")\n        context.add_import("typing", "TypeAlias")' if False else '        context.add_import("dataclasses", "dataclass")\n', new='        pass\n', count=2),
    dict(name="enum-import-dropped", file="core/writers/python_construct_renderer.py", expect="R1.1",
         old='        context.add_import("enum", "Enum")\n', new=""),
    dict(name="protocol-import-dropped", file="visit/endpoint/endpoint_visitor.py", expect="R1.1",
         old='        context.add_import("typing", "Protocol")\n', new=""),
    dict(name="header-serializer-import-dropped", file="visit/endpoint/generators/url_args_generator.py", expect="R1.1",
         old='        if header_params_to_write:\n            context.add_import(f"{context.core_package_name}.utils", "DataclassSerializer")\n', new=""),
    dict(name="alias-for-3xx-again", file="visit/endpoint/generators/response_handler_generator.py", expect="R1.3",
         old="                elif is_error_code(status_code_val):", new="                elif status_code_val >= 300:"),
    dict(name="config-template-broken", file="emitters/core_emitter.py", expect="R1.4",
         old="    timeout: float | None = 30.0\n", new="    timeout: float | None = 30.0,\n    retries: int =\n"),
    dict(name="core-init-reexports-missing-name", file="emitters/core_emitter.py", expect="R1.5",
         old='            "from .utils import DataclassSerializer",', new='            "from .utils import DataclassSerializer, JsonSerializer",'),
    dict(name="core-init-all-unimported", file="emitters/core_emitter.py", expect="R1.5",
         old='            \'    "ClientConfig",\',', new='            \'    "ClientConfig",\',\n            \'    "RetryPolicy",\','),
    dict(name="alias-names-dropped", file="emitters/exceptions_emitter.py", expect="R1.5",
         old="            generated_code, alias_names = self._generate_for_codes(all_codes, context)", new="            generated_code, _ = self._generate_for_codes(all_codes, context)"),
    dict(name="signature-leaves-no-indent", file="visit/endpoint/generators/signature_generator.py", expect="R1.7",
         old="        writer.indent()  # Keep the indent call as the original method did\n", new=""),
    dict(name="alias-writer-extra-dedent", file="visit/endpoint/endpoint_visitor.py", expect="R1.7",
         old="        writer.dedent()  # Dedent to close the class block\n        return writer.get_code()", new="        writer.dedent()  # Dedent to close the class block\n        writer.dedent()\n        return writer.get_code()"),
    dict(name="file-filter-live", file="emitters/models_emitter.py", expect="R1.8",
         old='                schema.name.lower() in ["id", "name", "text", "content", "value", "type", "status"]', new='                schema.name.rstrip("_").lower() in ["id", "name", "text", "content", "value", "type", "status"]'),
    dict(name="model-file-without-names", file="emitters/models_emitter.py", expect="R1.8",
         old="        if schema_ir.generation_name is None:\n            raise RuntimeError(f\"Schema '{schema_ir.name}' must have generation_name set before file generation.\")\n        if schema_ir.final_module_stem is None:\n            raise RuntimeError(f\"Schema '{schema_ir.name}' must have final_module_stem set before file generation.\")\n",
         new="        schema_ir.generation_name = schema_ir.generation_name or schema_ir.name\n        schema_ir.final_module_stem = schema_ir.final_module_stem or 'model'\n"),
    dict(name="param-override-dropped", file="core/loader/operations/parser.py", expect="R1.9",
         old="                    params = [p for p in params if not (p.name == op_param.name and p.param_in == op_param.param_in)]\n", new=""),
    dict(name="error-code-helper-unbounded", file="core/http_status_codes.py", expect="R1.3", old="    return 400 <= code < 600", new="    return code >= 400"),
    dict(name="emitter-skips-second-spelling", file="emitters/endpoints_emitter.py", expect="R1.10",
         old="                tag_key_to_ops.setdefault(key, []).append(op)", new="                if key in tag_key_to_ops and op in tag_key_to_ops[key]:\n                    continue\n                tag_key_to_ops.setdefault(key, []).append(op)"),
    dict(name="optional-forward-ref-quoted-operand", file="types/services/type_service.py", expect="R1.6",
         old="""            if python_type.startswith('"') and python_type.endswith('"') and python_type.count('"') == 2:""", new="""            if False:"""),
]
MUTANTS.append(dict(name="path-completion-hits-core-namespace", file='context/render_context.py', expect="R1.11", count=2,
    old='if package_suffix and logical_module.startswith(f"{package_suffix}.") and not in_core_package:', new='if package_suffix and logical_module.startswith(f"{package_suffix}."):'))
MUTANTS.append(dict(name="required-first-sort-before-path-variable-synthesis", file='visit/endpoint/processors/parameter_processor.py', expect="R1.13", old='        final_ordered_params = self._ensure_path_variables_as_params(op, ordered_params, param_details_map)\n\n        # Sort parameters: required first, then optional.\n        # We use a stable sort by negating \'required\' (True becomes -1, False becomes 0).\n        # Parameters with the same required status maintain their relative order.\n        final_ordered_params.sort(key=lambda p: not p["required"])\n', new='        ordered_params.sort(key=lambda p: not p["required"])\n        final_ordered_params = self._ensure_path_variables_as_params(op, ordered_params, param_details_map)\n'))
MUTANTS.append(dict(name="param-suffix-glued-on-after-sanitising", file='visit/endpoint/processors/parameter_processor.py', expect="R1.9", old='                    param_name_sanitized = NameSanitizer.sanitize_method_name(f"{base_param_name}_{suffix}")\n', new='                    param_name_sanitized = f"{base_param_name}_{suffix}"\n'))
MUTANTS.append(dict(name="secondary-success-always-returns-a-value", file='visit/endpoint/generators/response_handler_generator.py', expect="R1.14", old='        if strategy.is_streaming:\n            if value_expr is not None:\n                writer.write_line(f"yield {value_expr}")\n            writer.write_line("return  # Explicit return for async generator")\n        else:\n            writer.write_line(f"return {value_expr if value_expr is not None else \'None\'}")\n', new='        writer.write_line(f"return {value_expr if value_expr is not None else \'None\'}")\n'))
MUTANTS.append(dict(name='enum-member-dedup-tests-once', file='visit/model/enum_generator.py', expect='R1.15', old='            while unique_member_name in processed_member_names:\n', new='            if unique_member_name in processed_member_names:\n'))
MUTANTS.append(dict(name='overload-positional-param-gets-default', file='visit/endpoint/generators/overload_generator.py', expect='R1.16', old='                    param_parts.append(f"{sanitized_name}: {param_type}")\n', new='                    param_parts.append(f"{sanitized_name}: {param_type} = None" if not param.required else f"{sanitized_name}: {param_type}")\n', count=2, also='first-only'))
MUTANTS.append(dict(name='core-root-not-spared-from-completion', file='context/render_context.py', expect='R1.11', old='            in_core_package = logical_module == self.core_package_name or logical_module.startswith(\n', new='            in_core_package = logical_module.startswith(\n', count=2, also='first-only'))
