MUTANTS = [
    dict(name="runtime-imports-generator", file="core/http_transport.py", expect="R12.1",
         old="from .auth.base import BaseAuth\n", new="from .auth.base import BaseAuth\nfrom pyopenapi_gen.core.utils import NameSanitizer  # noqa\n"),
    dict(name="runtime-nested-third-party", file="core/streaming_helpers.py", expect="R12.1",
         old="async def iter_bytes(response: httpx.Response) -> AsyncIterator[bytes]:\n",
         new="async def iter_bytes(response: httpx.Response) -> AsyncIterator[bytes]:\n    import yaml  # noqa\n"),
    dict(name="runtime-imports-unshipped-sibling", file="core/http_transport.py", expect="R12.2",
         old="from .auth.base import BaseAuth\n", new="from .auth.base import BaseAuth\nfrom .warning_collector import WarningCollector  # noqa\n"),
    dict(name="runtime-file-dropped-from-list-but-imported", file="emitters/core_emitter.py", expect="R12.2",
         old='    ("pyopenapi_gen.core", "exceptions.py", "core/exceptions.py"),\n', new=""),
    dict(name="copy-rewrites-content", file="emitters/core_emitter.py", expect="R12.3",
         old="                    content = f.read()\n                self.file_manager.write_file(dst, content)",
         new="                    content = f.read()\n                content = content.replace('from .', 'from pyopenapi_gen.core.')\n                self.file_manager.write_file(dst, content)"),
    dict(name="register-generator-import", file="visit/model/dataclass_generator.py", expect="R12.4",
         old='context.add_import("dataclasses", "dataclass")', new='context.add_import("pyopenapi_gen.core.utils", "DataclassSerializer")'),
    dict(name="template-imports-generator", file="visit/model/dataclass_generator.py", expect="R12.5",
         old="    from {context.core_package_name}.cattrs_converter import converter, _register_structure_hooks_recursively",
         new="    from pyopenapi_gen.core.cattrs_converter import converter, _register_structure_hooks_recursively"),
    dict(name="discriminator-template-absolute-generator", file="core/writers/python_construct_renderer.py", expect="R12.5",
         old='writer.write_line(f"        from .{module_name} import {schema_name}")',
         new='writer.write_line(f"        from pyopenapi_gen.models.{module_name} import {schema_name}")'),
    dict(name="client-init-wrong-root", file="generator/client_generator.py", expect="R12.5",
         old='f"from {resolved_core_package_fqn}.config import ClientConfig"', new='f"from {output_package}.config import ClientConfig"'),
]
MUTANTS.append(dict(name="copy-skips-existing-destination", file="emitters/core_emitter.py", expect="R12.3",
    old="            self.file_manager.ensure_dir(os.path.dirname(dst))\n",
    new="            self.file_manager.ensure_dir(os.path.dirname(dst))\n            if os.path.exists(dst):\n                generated_files.append(dst)\n                continue\n"))
MUTANTS.append(dict(name="relative-core-path-into-absolute-import", file="visit/endpoint/generators/response_handler_generator.py", expect="R12.4",
    old='context.add_import(f"{context.core_package_name}.cattrs_converter", "structure_from_dict")',
    new='context.add_import(context.get_core_import_path("cattrs_converter"), "structure_from_dict")', count=2))
MUTANTS.append(dict(name="postprocess-receives-runtime-copies", file='generator/client_generator.py', expect="R12.6",
    old="[str(p) for p in self._without_runtime_copies(generated_files, core_dir)]", new="[str(p) for p in generated_files]"))
MUTANTS.append(dict(name="runtime-copy-filter-inverted-source", file='generator/client_generator.py', expect="R12.6",
    old="for _, _, rel_dst in RUNTIME_FILES}", new="for _, _, rel_dst in []}"))
MUTANTS.append(dict(name="typing-names-from-backport-package", file='context/render_context.py', expect="R12.4", old='                self.add_import("typing", name, is_typing_import=True)\n', new='                typing_module = "typing_extensions" if name in {"Self", "Required", "NotRequired"} else "typing"\n                self.add_import(typing_module, name, is_typing_import=True)\n'))
MUTANTS.append(dict(name='runtime-filter-compares-unresolved', file='generator/client_generator.py', expect='R12.6', old='        return [p for p in files if Path(p).resolve() not in copies]\n', new='        return [p for p in files if Path(p) not in copies]\n'))
MUTANTS.append(dict(name='core-root-completed-into-client', file='context/render_context.py', expect='R12.7', old='            in_core_package = logical_module == self.core_package_name or logical_module.startswith(\n', new='            in_core_package = logical_module.startswith(\n', count=2, also='first-only'))
