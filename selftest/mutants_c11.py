E = "emitters/exceptions_emitter.py"
G = "generator/client_generator.py"
MUTANTS = [
    dict(name="registry-starts-empty", file=E, expect="R11.1",
         old="                registry = json.load(f)\n", new="                json.load(f)\n                registry = {}\n"),
    dict(name="returns-own-codes", file=E, expect="R11.1",
         old="        return sorted(all_codes)\n", new="        return sorted(status_codes)\n"),
    dict(name="early-return-own-codes-when-unchanged", file=E, expect="R11.1",
         old="        # Update this client's codes\n", new="        if registry.get(client_name) == sorted(status_codes):\n            return sorted(status_codes)\n        # Update this client's codes\n"),
    dict(name="write-only-for-new-clients", file=E, expect="R11.1",
         old='        with open(registry_path, "w") as f:\n            json.dump(registry, f, indent=2, sort_keys=True)\n',
         new='        if len(registry) > 1:\n            with open(registry_path, "w") as f:\n                json.dump(registry, f, indent=2, sort_keys=True)\n        else:\n            return sorted(all_codes_of(registry))\n'),
    dict(name="alias-names-from-own-spec", file=E, expect="R11.1",
         old="            generated_code, alias_names = self._generate_for_codes(all_codes, context)", new="            generated_code, _ = self._generate_for_codes(all_codes, context)"),
    dict(name="regen-from-own-codes", file=E, expect="R11.1",
         old="            generated_code, alias_names = self._generate_for_codes(all_codes, context)", new="            generated_code, alias_names = self._generate_for_codes(status_codes, context)"),
    dict(name="registry-key-leaf-name", file=G, expect="R11.1",
         old="                ir, str(core_dir), client_package_name=output_package\n", new="                ir, str(core_dir), client_package_name=out_dir.name\n"),
    dict(name="registry-guard-first-run-only", file=E, expect="R11.1",
         old="        if client_package_name and self._is_shared_core(output_dir, client_package_name):",
         new="        if client_package_name and os.path.exists(registry_path) and self._is_shared_core(output_dir, client_package_name):"),
    dict(name="shared-predicate-depth-bounded-again", file=E, expect="R11.2",
         old='        return bool(self.overall_project_root)\n', new='        if not self.overall_project_root:\n            return False\n        from pathlib import Path\n        core_path = Path(core_dir).resolve()\n        project_root = Path(self.overall_project_root).resolve()\n        parent_dir = core_path.parent\n        return parent_dir == project_root or parent_dir.parent == project_root\n'),
    dict(name="shared-predicate-outside-client-only", file=E, expect="R11.2",
         old='        return bool(self.overall_project_root)\n', new='        if not self.overall_project_root:\n            return False\n        from pathlib import Path\n        core_path = Path(core_dir).resolve()\n        project_root = Path(self.overall_project_root).resolve()\n        parent_dir = core_path.parent\n        if parent_dir == project_root or parent_dir.parent == project_root:\n            return True\n        if client_package_name:\n            client_dir = project_root.joinpath(*client_package_name.split("."))\n            return client_dir != core_path and client_dir not in core_path.parents\n        return False\n'),
    dict(name="emitter-prunes-core", file=E, expect="R11.3",
         old='        registry = {}\n', new='        registry = {}\n        if os.path.exists(registry_path) and os.path.getsize(registry_path) == 0:\n            os.remove(registry_path)\n'),
    dict(name="shared-predicate-string-prefix", file=E, expect="R11.2",
         old='        return bool(self.overall_project_root)\n', new='        if not self.overall_project_root:\n            return False\n        from pathlib import Path\n        core_path = Path(core_dir).resolve()\n        project_root = Path(self.overall_project_root).resolve()\n        parent_dir = core_path.parent\n        client_dir = project_root.joinpath(*(client_package_name or "").split("."))\n        return not str(core_path).startswith(str(client_dir))\n'),
    dict(name="base-class-imports-per-code", file="visit/exception_visitor.py", expect="R11.4",
         old='        context.add_import(f"{context.core_package_name}.exceptions", "ServerError")\n', new=""),
]
MUTANTS.append(dict(name="cleanup-does-not-restore-registry", file='generator/client_generator.py', expect="R11.5", old='            if saved_registry is not None:\n                registry_path.write_bytes(saved_registry)\n', new=""))
MUTANTS.append(dict(name="cleanup-does-not-save-registry", file='generator/client_generator.py', expect="R11.5", old='                if registry_path.is_file() and (core_dir == out_dir or out_dir in core_dir.parents):\n                    saved_registry = registry_path.read_bytes()\n', new=""))
MUTANTS.append(dict(name='own-registry-entry-accumulates-old-codes', file='emitters/exceptions_emitter.py', expect='R11.1', old='        registry[client_name] = sorted(status_codes)\n', new='        registry[client_name] = sorted(set(status_codes) | set(registry.get(client_name, [])))\n'))
MUTANTS.append(dict(name='registry-rescued-for-direct-child-only', file='generator/client_generator.py', expect='R11.5', old='(core_dir == out_dir or out_dir in core_dir.parents)', new='(core_dir == out_dir or core_dir.parent == out_dir)'))
