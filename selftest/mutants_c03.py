CV = "core/cattrs_converter.py"
MUTANTS = [
    dict(name="resolver-emits-decimal", file="types/resolvers/schema_resolver.py", expect="R3.1",
         old='                "binary": "bytes",\n            }', new='                "binary": "bytes",\n                "decimal": "Decimal",\n            }'),
    dict(name="uuid-unstructure-hook-dropped", file=CV, expect="R3.1",
         old="converter.register_unstructure_hook(UUID, unstructure_uuid)\n", new=""),
    dict(name="bytes-urlsafe-encode", file=CV, expect="R3.3",
         old='    return base64.b64encode(data).decode("utf-8")', new='    return base64.urlsafe_b64encode(data).decode("utf-8")'),
    dict(name="structure-reads-dump-map", file=CV, expect="R3.4",
         old='                mappings: dict[str, str] = _merged_meta_mappings(cls, "key_transform_with_load")',
         new='                mappings: dict[str, str] = _merged_meta_mappings(cls, "key_transform_with_dump")'),
    dict(name="nested-registration-skips-wrappers", file=CV, expect="R3.5",
         old="    if isinstance(type_hint, type) and dataclasses.is_dataclass(type_hint):\n        registrar(type_hint, visited)\n        return",
         new="    if isinstance(type_hint, type) and dataclasses.is_dataclass(type_hint):\n        if [f.name for f in dataclasses.fields(type_hint)] != [\"_data\"]:\n            registrar(type_hint, visited)\n        return"),
    dict(name="unstructure-recursion-skips-optional-fields", file=CV, expect="R3.5",
         old="        _register_hooks_for_nested_types(field_type, visited, _register_unstructure_hooks_recursively)",
         new="        if field.default is dataclasses.MISSING:\n            _register_hooks_for_nested_types(field_type, visited, _register_unstructure_hooks_recursively)"),
    dict(name="field-mapping-only-when-renamed", file="visit/model/dataclass_generator.py", expect="R3.2",
         old="                field_mappings[prop_name] = field_name\n", new="                if prop_name != field_name and not prop_name.startswith(\"x-\"):\n                    field_mappings[prop_name] = field_name\n"),
    dict(name="dump-map-not-swapped", file="core/writers/python_construct_renderer.py", expect="R3.2",
         old='                writer.write_line(f"{json.dumps(python_field)}: {json.dumps(api_field, ensure_ascii=False)},")', new='                writer.write_line(f"{json.dumps(api_field, ensure_ascii=False)}: {json.dumps(python_field)},")'),
    dict(name="field-names-collide-after-sanitising", file="visit/model/dataclass_generator.py", expect="R3.6",
         old="                    while field_name in seen_field_names:\n                        field_name = f\"{base_field_name}_{suffix}\"\n                        suffix += 1\n",
         new="                    field_name = f\"{base_field_name}_{suffix}\"\n"),
    dict(name="one-of-single-variant-loses-optionality", file="types/resolvers/schema_resolver.py", expect="R3.7",
         old="            return ResolvedType(python_type=resolved_types[0], is_optional=not required)", new="            return ResolvedType(python_type=resolved_types[0])", count=2, also="first-only"),
    dict(name="type-array-read-from-ir", file="core/parsing/schema_parser.py", expect="R3.8",
         old='                            elif isinstance(prop_schema_node.get("type"), list) and "null" in prop_schema_node["type"]:', new='                            elif isinstance(parsed_prop_schema_ir.type, list) and "null" in parsed_prop_schema_ir.type:'),
]
MUTANTS.append(dict(name="string-format-typed-as-int", file='types/resolvers/schema_resolver.py', expect="R3.10", old='                "binary": "bytes",\n', new='                "binary": "bytes",\n                "int64": "int",\n'))
MUTANTS.append(dict(name='meta-keys-ascii-escaped', file='core/writers/python_construct_renderer.py', expect='R3.11', old='writer.write_line(f"{json.dumps(api_field, ensure_ascii=False)}: {json.dumps(python_field)},")', new='writer.write_line(f"{json.dumps(api_field)}: {json.dumps(python_field)},")'))
MUTANTS.append(dict(name='union-variants-tried-in-reverse', file='core/cattrs_converter.py', expect='R3.12', old='        for variant in dataclass_variants:\n', new='        for variant in reversed(dataclass_variants):\n'))
MUTANTS.append(dict(name="decode-side-derives-camel-key", file="core/cattrs_converter.py", expect='R3.13', old='            json_key = python_name  # Default: no transformation\n', new='            json_key = snake_to_camel(python_name)  # Default\n', count=2, also="first-only"))
MUTANTS.append(dict(name='name-fallback-merges-integer-and-number', file='types/resolvers/schema_resolver.py', expect='R3.14', old='            target_type = getattr(target_schema, "type", None)\n            is_other_kind = schema_type in ("string", "integer", "number", "boolean") and target_type != schema_type\n', new='            # (JSON has a single numeric kind: "integer" and "number" compare as the same kind)\n            target_type = getattr(target_schema, "type", None)\n            json_kind = {"integer": "number"}\n            is_other_kind = schema_type in ("string", "integer", "number", "boolean") and json_kind.get(\n                target_type, target_type\n            ) != json_kind.get(schema_type, schema_type)\n'))
MUTANTS.append(dict(name='annotated-union-member-unwrapped', file='core/cattrs_converter.py', expect='R3.15', old='\n    for arg in args:\n', new='\n    for arg in args:\n        if get_origin(arg) is Annotated:\n            # A member written as Annotated[T, ...] is classified (dataclass / dict / other) by T itself\n            arg = get_args(arg)[0]\n'))
