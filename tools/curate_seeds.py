#!/venv/bin/python
"""tools/curate_seeds.py <src root> <matrix file> <round> - copy confirmed seeded changes into /verif/seeded/<label>/ with meta.json.

Not part of any check.  Input: <src root>/<label>/{patch.diff,demo.py,notes.md,confirm.json[,PORTED,notes_original.md]}.
"""
import json, os, re, shutil, sys

src, matrix, rnd = sys.argv[1], sys.argv[2], sys.argv[3]
caught = {}
for line in open(matrix):
    if ":" not in line or line.startswith("done"):
        continue
    lab, rest = line.split(":", 1)
    caught[lab.strip()] = rest.split()
for lab in sorted(os.listdir(src)):
    d = os.path.join(src, lab)
    if not os.path.isfile(os.path.join(d, "patch.diff")):
        continue
    out = os.path.join("/verif/seeded", lab)
    os.makedirs(out, exist_ok=True)
    for f in ("patch.diff", "patch_original.diff", "demo.py", "notes.md", "notes_original.md"):
        if os.path.exists(os.path.join(d, f)):
            shutil.copy(os.path.join(d, f), os.path.join(out, f))
    notes = open(os.path.join(d, "notes.md")).read()
    title = (re.search(r"^# (.*)$", notes, re.M) or [None, ""])[1]
    m = re.search(r"^## [^\n]*(?:needs|manifest)[^\n]*\n(.*?)(?=^## |\Z)", notes, re.M | re.S | re.I)
    needs = re.sub(r"\s+", " ", m.group(1)).strip() if m else ""
    conf = json.load(open(os.path.join(d, "confirm.json")))
    files = sorted(set(re.findall(r"^\+\+\+ b/(\S+)", open(os.path.join(d, "patch.diff")).read(), re.M)))
    meta = {
        "label": lab,
        "property": lab.split("_")[0],
        "round": rnd,
        "title": title,
        "files_touched": files,
        "needs_to_manifest": needs[:1500],
        "origin": "fresh sub-agent given only the property text and a scratch worktree under /tmp"
                  + ("; re-based by hand onto the tree with the fix: commits (same edit, same site - original notes kept as notes_original.md)" if os.path.exists(os.path.join(d, "PORTED")) else ""),
        "confirmed": {
            "base": "scratch worktree of /repo HEAD (all fix: commits applied)",
            "how": "tools/confirm_seed.sh: demo.py on the clean worktree, `git apply patch.diff`, demo.py again, then the pinned pytest command; failing test ids compared with tools/baseline_fail.txt",
            "demo_exit_clean": int(conf["demo_clean_rc"]),
            "demo_exit_patched": int(conf["demo_patched_rc"]),
            "test_suite_with_patch": conf["tests"],
            "new_failing_tests": conf["new_failing_tests"] or "none",
            "demo_output_with_patch": conf.get("patched_demo_tail", "")[-1200:],
        },
        "caught_by": caught.get(lab, []),
        "how_to_rerun": f"git -C /repo apply /verif/seeded/{lab}/patch.diff && /verif/check {lab.split('_')[0]} --tier quick; git -C /repo checkout -- .",
    }
    json.dump(meta, open(os.path.join(out, "meta.json"), "w"), indent=1, ensure_ascii=False)
    print(lab, "->", " ".join(meta["caught_by"]) or "NOT CAUGHT", "| needs:", needs[:60])
