#!/bin/sh
# tools/catch_matrix.sh <seed dir>  -> prints "<label>: <PROP:rules> ..." for every check that reports a new VIOLATION with the patch applied
D="$1"; L=$(basename "$D")
T=$(mktemp -d /tmp/cm.XXXXXX)
mkdir -p "$T/repo" && cp -r /repo/src "$T/repo/src"
( cd "$T/repo" && patch -p1 -s --no-backup-if-mismatch < "$D/patch.diff" ) || { echo "$L: PATCH-FAILED"; rm -rf "$T"; exit 0; }
OUT=""
for i in 01 02 03 04 05 06 07 08 09 10 11 12 13 14 15 16 17 18 19 20; do
  R=$(VERIF_NO_EVIDENCE=1 /verif/check C$i --tier quick --repo "$T/repo" 2>/dev/null)
  if echo "$R" | grep -q "^VIOLATION"; then
     RULES=$(echo "$R" | grep -o "^  R[0-9.]*" | sort -u | tr -d ' ' | tr '\n' ',' | sed 's/,$//')
     OUT="$OUT C$i:$RULES"
  fi
done
echo "$L:$OUT"
rm -rf "$T"
