#!/bin/sh
# tools/confirm_seed.sh <dir with patch.diff + demo.py> <label>
# Confirms a seeded change against the *current* /repo HEAD in a scratch worktree:
#   demo on clean tree -> 0, patch applies, demo with patch -> non-zero, test-suite with patch -> same failing set as baseline.
# Writes <dir>/confirm.json and removes the worktree.
D="$1"; L="$2"
WT=$(mktemp -d /tmp/sw_${L}_XXXXXX)
rmdir "$WT"
git -C /repo worktree add --detach "$WT" HEAD >/dev/null 2>&1 || { echo "worktree failed"; exit 3; }
cd "$WT"
clean_rc=$(PYTHONPATH="$WT/src" timeout 600 /venv/bin/python "$D/demo.py" >/tmp/sw_${L}_clean.out 2>&1; echo $?)
applied=yes
git apply "$D/patch.diff" 2>/dev/null || git apply -3 "$D/patch.diff" 2>/dev/null || patch -p1 -s --no-backup-if-mismatch < "$D/patch.diff" >/dev/null 2>&1 || applied=no
patched_rc=NA; tests="NA"; newfail="NA"
if [ "$applied" = yes ]; then
  patched_rc=$(PYTHONPATH="$WT/src" timeout 600 /venv/bin/python "$D/demo.py" >/tmp/sw_${L}_patched.out 2>&1; echo $?)
  timeout 1500 /venv/bin/python -m pytest -q -p no:cacheprovider --timeout=900 --continue-on-collection-errors -n 4 -rf > /tmp/sw_${L}_tests.out 2>&1
  tests=$(tail -1 /tmp/sw_${L}_tests.out)
  grep '^FAILED' /tmp/sw_${L}_tests.out | sed "s/^FAILED //; s/ - .*//" | sed "s#/#.#g; s/\.py::\([A-Z][A-Za-z0-9_]*\)::/.\1::/; s/\.py::/::/" | sort > /tmp/sw_${L}_fail.txt
  newfail=$(comm -23 /tmp/sw_${L}_fail.txt /verif/tools/baseline_fail.txt | tr '\n' ' ')
fi
tail -5 /tmp/sw_${L}_patched.out 2>/dev/null > /tmp/sw_${L}_ptail.txt
/venv/bin/python - "$D" "$L" "$clean_rc" "$applied" "$patched_rc" "$tests" "$newfail" <<'E'
import json,sys
d,l,c,a,p,t,n=sys.argv[1:8]
json.dump({"label":l,"base":"/repo HEAD","demo_clean_rc":c,"patch_applies":a,"demo_patched_rc":p,"tests":t,"new_failing_tests":n.strip(),
           "patched_demo_tail":open(f"/tmp/sw_{l}_ptail.txt").read() if a=="yes" else ""},open(d+"/confirm.json","w"),indent=1)
print(l,"clean",c,"applies",a,"patched",p,"|",t,"| new failures:",n.strip() or "none")
E
cd /; git -C /repo worktree remove --force "$WT" >/dev/null 2>&1; rm -rf "$WT" /tmp/sw_${L}_*.out /tmp/sw_${L}_fail.txt /tmp/sw_${L}_ptail.txt; rm -f /tmp/pyopenapi_gen_*.log
