#!/venv/bin/python
"""Regenerates /verif/MANIFEST.json from the table below and validates it against the schema.
A property is *claimed* when rules/<id>.py exists and it has an entry in CLAIMS; otherwise it is
listed under not_applicable with its reason."""
import json
import os
import sys

HERE = os.path.dirname(os.path.dirname(os.path.abspath(__file__)))

NOTE = (
    "Trusted base: CPython 3.12 `ast`, the CFG/dataflow/call-graph engine under /verif/sa, and the assumption that "
    "code outside a `try` body does not raise. The rules decide the structural clauses named here (necessary "
    "conditions of the property), not the behaviour for every input; the undecided value-level clauses are listed "
    "in DESIGN.md section 4."
)

CLAIMS = {
    "C08": dict(
        text="Decides, for every path of the recursive schema parser (normal and exceptional exits), that cycle-tracker "
        "enter/exit calls are balanced and never go below zero (typestate on the CFG of every function that uses the tracker), "
        "that only the tracker writes its state, that every recursion cycle of the parser call graph passes through the "
        "depth/cycle gate, that the gate increments before checking and its depth test dominates every CONTINUE_PARSING "
        "return, that exit restores the rest state, and that build_schemas keeps its all-names-present post-condition. "
        "This is the all-paths argument the property needs and tests cannot sample; it does not bound interpreter stack use "
        "per level.",
        technique="typestate dataflow over a hand-built CFG (incl. finally duplication and exceptional edges), dominators, call-graph SCCs, who-writes ownership",
        ref="3/C08",
    ),
}

CLAIMS["C12"] = dict(
    text="Decides the absence claim directly on the code that produces every client: (1) all import statements (top-level, nested, "
    "TYPE_CHECKING, try-guarded) of the 8 runtime modules that are copied into each core are stdlib/httpx/cattrs/relative and their "
    "relative targets are shipped too; (2) the copy in CoreEmitter.emit is verbatim (single `f.read()` definition reaches the write); "
    "(3) all ~165 import-registration call sites and all ~50 import statements embedded in code templates name only stdlib, httpx, "
    "cattrs, the emitted package or the designated core package. Because the payload is copied byte-for-byte, scanning it in /repo "
    "scans it in every client; a stray generator import in any rarely-used template is reported with its site.",
    technique="import allow-list over the runtime payload + def-use check of the verbatim copy + classification of every import-registration argument and template-embedded import",
    ref="3/C12",
)
CLAIMS["C17"] = dict(
    text="Decides the composition of transport x plugins that no test runs through to the wire: (1) key flow - every request_args key a "
    "bundled plugin writes (headers, params, cookies) is read back from the plugin result by HttpxTransport and stored into the request "
    "kwargs on every path; (2) layering - the header dict is fresh (defaults never aliased), defaults.update precedes per-request update "
    "precedes the auth call on every path and the plugin sees the layered headers; (3) pass-through - request() forwards method, url and "
    "every caller kwarg except headers unchanged (exact comprehension filter, no pops/overrides); (4) CompositeAuth threads the result "
    "through self.plugins in constructor order; (5) ApiKeyAuth's location switch is total and writes {self.name: self.key} into the right "
    "container; (6) every bundled plugin extends a copy of the container it writes and returns request_args. Header-name case folding and "
    "the bytes httpx finally sends are not decided.",
    technique="key-flow def-use (written keys subset of forwarded keys) + must-pass-through on the CFG + statement-order reachability + structural totality of the location switch",
    ref="3/C17",
)
CLAIMS["C18"] = dict(
    text="Decides chunk-independence by information flow: each line-oriented decoder (iter_sse, iter_ndjson, iter_sse_events_text and any "
    "new decoder taking a response) touches the response only through `aiter_lines()` as the iterable of an async-for, or by delegating to "
    "another checked decoder, and never re-splits/decodes text itself - so chunk boundaries are not observable and the claim reduces to "
    "httpx's LineDecoder (trusted). Plus typestate of the SSE accumulator on all CFG paths (dispatch exactly on the blank line, every "
    "non-blank line collected, reset after dispatch and never before parsing, final unterminated event flushed, every parsed event "
    "yielded), field parsing (comment test dominates the split at the first colon, data appended in order and joined with a newline) and "
    "per-line ndjson decoding with no carried state. Equality of yielded items over all chunkings is not enumerated.",
    technique="information-flow restriction on the response object + accumulator typestate dataflow over the CFG + dominance checks in the field parser",
    ref="3/C18",
)
CLAIMS["C06"] = dict(
    text="Decides, by evaluating the code's own status predicates over the whole finite domain 100..599 (the predicate ASTs are "
    "interpreted by the checker, nothing is run): (1) the bundled transport raises for exactly the complement of 200..299 and returns "
    "only for 2xx - control flow after the send is followed per status code; (2) the class it raises is a ClientError subclass for "
    "400..499 and a ServerError subclass for 500..599 (class hierarchy read from core/exceptions.py), and declared 4xx/5xx arms of the "
    "generated dispatch never raise the bare base class; (3) on every path of the dispatch *generator* the wildcard `case _` arm and "
    "every non-2xx arm are filled with a raise and no return (typestate over emitted lines); (4) alias classes take ClientError for "
    "exactly 400..499 and ServerError for 500..599 in both alias generators, and every status for which the handler raises an alias "
    "has an alias class; (5) errors carry status_code and response (HTTPError.__init__, alias __init__ template, raise sites). "
    "Behaviour of arbitrary custom transports beyond 'returns the response unraised' is not modelled.",
    technique="abstract evaluation of status predicates over the finite status domain + per-status CFG simulation + emitted-line typestate on the generator's CFG + sibling agreement of alias generators",
    ref="3/C06",
)
CLAIMS["C10"] = dict(
    text="Decides the mechanisms that make 'compare-only means read-only' hold on every path instead of injecting faults at sampled "
    "points: (1) truth-table of the mode switch - for every valuation with force=False and an existing output package the compare-only "
    "branch runs; (2) provenance - inside that branch no value derived from the real project root reaches an emitter constructor, an "
    "emit/run call, a RenderContext or a write sink (only _show_diffs' first argument and read-only tests may see real paths), all temp "
    "generation is enclosed in `with TemporaryDirectory()`, and every _show_diffs result feeds the `raise GenerationError` test; (3) all "
    "~60 filesystem write sinks on the generation path take paths derived from the directories the function was given (never cwd, home, "
    "environment, absolute or parent-directory constants; debug logs only under gettempdir()); (4) destructive operations are an exact "
    "table (rmtree(out_dir) in the direct branch, the atomic .tmp rename) and the ancestor __init__ loops stop at project_root; (5) no "
    "exception handler in the emitters/generator reachable from generate() swallows a failure. The byte-identity of the tree after a "
    "given fault is not executed.",
    technique="truth-table evaluation of the mode switch + backward provenance (def-use) of path arguments per branch + sink enumeration with root classification + handler error-discipline over the call graph",
    ref="3/C10",
)
CLAIMS["C11"] = dict(
    text="Decides the mechanism that keeps a shared core complete over any generation history: (1) _update_registry is a read-modify-"
    "write of one dict (the loaded registry is the one updated under the client key and dumped), every return is derived from the union "
    "over all clients' codes, the write can only be skipped under an 'entry unchanged' guard, and emit regenerates both the alias code "
    "and the exported alias names from that union, guarded only by (client name given and core is shared); the registry key at both "
    "generator call sites is the full dotted output package; (2) the 'core is shared' predicate is evaluated - by a path-algebra "
    "interpreter over its AST - on symbolic layouts (client depth 1..3 x core outside the client at depth 1..4, sibling-in-parent, "
    "embedded) and must be true whenever the core lies outside the client package; (3) the core/exception emitters never delete. "
    "Importability after a concrete history is not executed.",
    technique="def-use / return-value provenance in the registry update + exhaustive abstract evaluation of the sharedness predicate over symbolic directory layouts + no-destructive-call table",
    ref="3/C11",
)
CLAIMS["C09"] = dict(
    text="Decides the sources of nondeterminism and the diff logic, not byte-identity of two runs: (1) every iteration (for, "
    "comprehension, join, list(), enumerate, star) over a value inferred to be a set / frozenset / dict-of-set container / list(set) in "
    "the live generator is wrapped in sorted() or consumed / handled order-insensitively (loop bodies restricted to set insertion, "
    "import registration, logging); (2) every ambient source site (id, hash, clocks, random, uuid, cwd, pid, environment, temp names) "
    "is classified: logs, visited keys, timing bookkeeping, documented option variables, dead `or os.getcwd()` fallback; the id()-"
    "derived schema name needs a guard-correlation proof (assigned only under G, used only where G is false); (3) module/class-level "
    "mutable state with a writer reachable on the generation path; (4) _show_diffs walks all generated *.py recursively, flags content "
    "differences and files missing from the existing tree, and every result feeds the raise; (5) compare-only generation seeds the "
    "temp core with the real exception registry before emitting; (6) both generation branches run the same emitter sequence once each "
    "and write the same generator-owned files, and emit-time operation-id renaming loops until free and records the final name "
    "(idempotent).",
    technique="set-ness type inference + order-observability analysis of each iteration site; ambient-source taint with guard correlation; sibling-branch comparison of emitter sequences; must-set-flag path checks in the diff routine",
    ref="3/C09",
)
CLAIMS["C20"] = dict(
    text="Decides the for-all-strings claim by abstract interpretation instead of enumerating short strings: each NameSanitizer name "
    "function that is referenced anywhere in the package (class, module, method; the two tag functions have no caller and are "
    "recorded as not armed until one appears) is interpreted over a string-shape domain (may-be-empty, set of "
    "character classes at position 0 and anywhere - ASCII upper/lower/digit/underscore/other plus four non-ASCII classes separating "
    "identifier-start, identifier-continue, \\w-but-not-identifier and other - guaranteed suffix, keyword-guard state) with transfer "
    "functions for exactly the regex and string operations the functions use (patterns parsed with re._parser). Obligations on the "
    "abstract result: never empty, valid first character, only identifier characters, no Python keyword reachable given the guard that "
    "was applied to the *returned* value. An unmodelled operation is an ANALYSIS-ERROR, never a pass. Enum member-name generators are "
    "checked for their validated-return shape (raise unless fullmatch, keyword suffix dominates). De-duplication soundness is checked "
    "structurally at the six namespace sites (fields, enum members, class names, module stems, operation methods, operation "
    "parameters): membership test in the accumulating set, rename in a loop until unused, final name recorded on every path. The "
    "domain over-approximates: it can only produce an extra report (triaged against the real function once), never miss one.",
    technique="string-shape abstract interpretation with regex transfer functions + validated-return dominance + de-dup pattern check on the CFG",
    ref="3/C20",
)
CLAIMS["C15"] = dict(
    text="An injection-style taint analysis over the generator's own emit code, which is where the position x payload matrix is decided: "
    "every f-string template that is written as a code line or code block is lexed (a small Python lexer over its constant text) to "
    "classify each hole as CODE / STRING / DOCSTRING / COMMENT; hole values are traced backwards through local definitions, record "
    "unpacking and an inter-procedural parameter-taint fixpoint to free spec text (descriptions, summaries, titles, defaults, examples, "
    "enum values, property and parameter names, tags, discriminator property/values, media types). A tainted value must pass the "
    "sanitizer of its context: a complete-literal producer (json.dumps/repr/!r) or an identifier/type producer in CODE, a literal "
    "producer in STRING (values between quotes must be *known* identifier-like otherwise), backslash+triple-quote escaping in "
    "DOCSTRING (helpers' escapes are read from their bodies), removal of every line boundary in COMMENT. Alternative definitions "
    "intersect, chained re-definitions accumulate. DocumentationBlock fields are discharged only by central escaping in "
    "render_docstring that covers all content lines. Emitted code must not be re-split with str.splitlines(). The sanitizers trusted "
    "in CODE positions are themselves proved to return identifiers for every input (string-shape abstract interpretation shared "
    "with C20). Decides that no "
    "un-escaped flow exists in today's templates; it does not enumerate payloads, and evaluated-literal equality is argued via "
    "json.dumps's contract.",
    technique="context-sensitive taint analysis: template lexing for hole contexts + backward def-use origin tracing + inter-procedural parameter taint + per-context sanitizer obligations",
    ref="3/C15",
)
CLAIMS["C05"] = dict(
    text="Decides the structural clauses behind response fidelity on the generator's code: (1) the three copies of the primary-response "
    "selector are reduced to a normal form (ordered rules eq/startswith/in/first over both coding idioms) and must all equal "
    "[200, 201, 202, 204, other 2xx, default, first] - the signature (strategy) and the handler therefore pick the same response; "
    "(2) the strategy is resolved once and that value is threaded unchanged into signature, docstring, overloads and handler; (3) every "
    "emit site of the response handler whose template mentions a runtime symbol (structure_from_dict, cast, iter_bytes, "
    "iter_sse_events_text, json.loads, HTTPError) has the registration of its import on every CFG path through it (dominator / "
    "post-dominator); (4) every `cast(T, response.json())` emit is preceded, on all paths, by tests that divert str / bytes to "
    "response.text / response.content; (5) no-content primary and secondary responses emit `return None`; (6) the streaming templates "
    "yield every item of the runtime decoder unchanged, and the SSE decoder's accumulator typestate and field parsing hold (rules "
    "shared with C18). Typed value equality for a given body is "
    "not decided.",
    technique="sibling normal-form comparison + single-value threading (def-use) + must-pass-through import obligations on the CFG + guard dominance",
    ref="3/C05",
)
CLAIMS["C07"] = dict(
    text="Decides the places where an operation can silently disappear or collapse: (1) error discipline - no exception handler in "
    "parse_operations / parse_response / parse_parameter / parse_request_body continues without raising; (2) the response status key "
    "is passed through str() before the type-strict parser (YAML `200:`); (3) operation-id de-duplication is sound (membership test, "
    "rename until unused, final name recorded) and runs before tag grouping; (4) EndpointsEmitter and ClientVisitor have the same "
    "tag-grouping normal form (every tag, normalize_tag_key, 'default', max(tag_score) with structurally equal score bodies) and derive "
    "class/module names with the same sanitizers; (5) between grouping and emission there is no filter: every (operation, tag) pair is "
    "grouped, every operation of a key is visited, every key writes its module, registers its class and gets an APIClient property. "
    "Method counts for a concrete document are not executed.",
    technique="handler error-discipline + key-normalisation def-use + de-dup pattern on the CFG + sibling normal-form comparison + no-filter structural check of the emission loops",
    ref="3/C07",
)
CLAIMS["C13"] = dict(
    text="Decides the agreement between the three producers of a tag's surface: (1) Protocol stubs and mock methods are cut from exactly "
    "one EndpointMethodGenerator.generate call per operation; (2) MocksEmitter, EndpointsEmitter and ClientVisitor have identical "
    "tag-grouping normal forms and the mock mapping is keyed by the canonical tag spelling that names classes and modules; (3) on every "
    "CFG path of _transform_to_mock from the written signature to the return a `raise NotImplementedError(` line is written; (4) class, "
    "module, Protocol and mock class names are derived from the canonical tag by the same functions in all six places; (5) the "
    "coroutine-vs-async-generator decision is taken from the rendered signature's return annotation in both Protocol and mock "
    "generation. inspect.signature equality for a concrete operation shape is not executed (it follows from (1) up to the textual "
    "extraction).",
    technique="single-source who-calls + sibling normal-form comparison of tag grouping/naming + must-pass-through on the mock transformer's CFG",
    ref="3/C13",
)
CLAIMS["C19"] = dict(
    text="Only the clauses visible in the shape of the code are decided; the metamorphic relation between two renderings is not. "
    "(1) Key typing: every key of a document mapping that reaches a parser parameter which raises unless it is a str (computed from "
    "the parsers' own isinstance checks) passes str() first, and no loop over document `.items()` skips or rejects entries on the "
    "Python type of the key; (2) path-level and operation-level parameters (and responses / request bodies) are parsed with the same "
    "naming context, so promoted inline schemas are named independently of where and in which order they are declared; (3) the three "
    "primary-response selectors try exact codes in fixed priority over all responses, i.e. independent of the order of `responses`; "
    "(4) documents are loaded only through json.loads / yaml.safe_load.",
    technique="key-typing sensitivity analysis (strict-parameter summaries x items() loops) + sibling call-site agreement + selector normal form",
    ref="3/C19",
)
CLAIMS["C03"] = dict(
    text="The round-trip equality itself is a relation between runtime values and is not decided. Decided are the agreements between "
    "its two components: (1) every Python leaf type the type resolver can emit (read from _resolve_string.format_mapping and the "
    "ResolvedType literals) is handled by the bundled converter - cattrs-native (frozen table) or a structure+unstructure hook pair "
    "registered at module level; (2) each hook pair is an inverse pair from a codec table (b64decode/b64encode, fromisoformat/isoformat, "
    "UUID/str); (3) every property passes, on every path of the generator's property loop, through `field_mappings[prop_name] = "
    "field_name` and `fields_data.append`, and the two Meta maps are the swapped rendering of that one mapping; (4) the structure / "
    "unstructure function builders read Meta.key_transform_with_load / _with_dump and pass override(rename=) per field; (5) hook "
    "registration descends into every field type of every dataclass (must-pass-through on the field loop, unconditional registration "
    "inside generics/unions); (6) colliding field names are de-duplicated soundly (test / rename until unused / record), so the "
    "Meta maps are bijections.",
    technique="table agreement between generator and converter + inverse-codec pairing + must-pass-through on the property loop + recursion-shape checks",
    ref="3/C03",
)
CLAIMS["C14"] = dict(
    text="Losslessness for all payload/variant pairs is not decided (and the first-success loop is a recorded finding). Decided on "
    "_structure_union's CFG: the discriminated path is entered on key presence (`property in data`), the exceptional edge of the "
    "mapped-variant structure call reaches only raises (never the sequential loops, never a normal return), an unmapped value raises; "
    "first-success loops must reject extra keys to be lossless (they do not: known finding with witness); the resolver renders union "
    "variants in spec order with order-preserving de-duplication; render_alias attaches discriminator metadata whenever a "
    "discriminator exists and the target starts with `Union[` (no further condition, so nullable unions keep it).",
    technique="exceptional-edge reachability on the CFG + guard-shape checks + missing-guard rule on first-success loops",
    ref="3/C14",
)
CLAIMS["C16"] = dict(
    text="The round-trip laws and hook-registration history effects are runtime relations and are not decided. Decided: every exceptional "
    "exit of structure_from_dict's try re-raises ValueError (validation errors through _extract_errors' field path); in "
    "DataclassSerializer every recursive descent is dominated by the visited check with the object registered (and un-registered in a "
    "finally), while delegations of whole subtrees to cattrs are unguarded (two known findings with RecursionError witnesses); every "
    "container-carrying return strips None; the post-processor recurses with itself on list items and dict values and re-enters the "
    "guarded serialiser for leftover dataclass instances; plus the shared converter rules (inverse hook pairs, rename plumbing, "
    "recursive registration).",
    technique="exception-path conversion check + guarded-descent dominance on the CFG + return-path stripping + recursion-shape of the post-processor",
    ref="3/C16",
)
CLAIMS["C04"] = dict(
    text="The bytes on the wire for a given argument assignment are not decided. Decided on the generator's code: (1) location "
    "exhaustiveness - every parameter location admitted into the signature (path, query, header, cookie) has an emitting consumer "
    "(cookie has none: known finding); (2) every function that emits the transport call makes params=/headers= data-dependent "
    "(the multi-content implementation emits literal None: known finding); (3) query/header entries are keyed by "
    "json.dumps(original_name) and valued by the argument recorded for that parameter; (4) path-level/operation-level parameters are "
    "merged by (name, in) and argument-name collisions are de-duplicated with path parameters keeping the name the URL template "
    "uses; (5) required parameters use the plain entry and optional ones the conditional unpack template; (6) URL builder, "
    "implementation method and signature use the same sanitizer for path variables; (7) the request body argument is emitted under "
    "no other condition than 'the operation has a body of that content type' (not, e.g., the HTTP method) and refers only to "
    "variables that the URL/args templates define; (8) in the bundled transport per-request headers are layered over transport "
    "defaults, so a supplied header parameter reaches the wire with the caller's value (rule shared with C17).",
    technique="exhaustiveness over parameter locations + data-dependence of emitted call arguments + guard-conjunct analysis on the CFG + provenance of template holes",
    ref="3/C04",
)
CLAIMS["C02"] = dict(
    text="Equality of model field sets for all schema graphs and declaration orders is not decided (that needs an independent resolver). "
    "Decided on the parser/generator code: (1) return-value provenance - after `schema_ir = IRSchema(...)` every normal return of "
    "_parse_schema returns that object (the early `return existing_in_context` is a recorded finding: order [User, UserGroup] leaves "
    "User without fields); (2) non-interference - cycle-handling decisions never test the *text* of schema names (seven "
    "substring/prefix/suffix tests are recorded findings, each with an order-dependent witness); (3) loop-path completeness - every "
    "iteration of _parse_properties assigns the property or takes one of two enumerated skips; the allOf merge takes `properties` and "
    "`required` from every member on every path; the dataclass generator's property loop has no skip and its list is unfiltered; (4) "
    "required-ness comes only from `prop_name in schema.required` and defaults are computed only under `not is_required`; (5) every "
    "path from construction to `return schema_ir` registers the schema unless one of four enumerated flags holds; (6) the cycle "
    "tracker's enter/exit calls balance on every path of _parse_schema (a leaked depth turns later, unrelated schemas into "
    "zero-field placeholders; typestate shared with C08).",
    technique="return-value provenance on the CFG + non-interference (name-content) lint + must-pass-through on loop bodies with enumerated bypasses",
    ref="3/C02",
)
CLAIMS["C01"] = dict(
    text="That every emitted file parses and imports for every accepted spec is a statement over generator runs and is not decided. "
    "Decided are necessary conditions on the emit code that a single forgotten site would break: (1) import obligations - for every "
    "emit of a code line mentioning a symbol of a frozen table (dataclass, field, Enum, unique, Protocol, runtime_checkable, "
    "TYPE_CHECKING, overload, TypeAlias, Annotated, cast, HttpTransport, DataclassSerializer, structure_from_dict, ...) the "
    "registration of its import lies on every CFG path through the emit (dominator/post-dominator, list-truthiness guard "
    "correlation, or discharged at every call site of the emitting function); (2) every status for which endpoints raise an alias "
    "class has an alias class; (3) the constant templates (CONFIG_TEMPLATE, core/auth __init__ line lists, wrapper-class blocks) "
    "parse with holes as identifiers, every `from .X import N` in them names a shipped runtime module defining N, every __all__ "
    "entry is imported, and exported alias names are regenerated together with the alias code; (4) shared code writers are left at "
    "the indentation they were received with (callee summaries checked on the callee); (5) de-collision is complete before the "
    "first model file is written, files are refused without names, and a file filter after naming is either unsatisfiable (a small "
    "string-constraint check) or applied to the registry exports are rendered from; (6) no parameter can be declared twice.",
    technique="must-pass-through import obligations with caller discharge + template parsing/cross-reference + writer indent typestate with callee summaries + emission-set consistency",
    ref="3/C01",
)

NOT_APPLICABLE = {}

PENDING = "check not built yet (framework under construction; DESIGN.md lists the planned rules)"



# Rules added after the first round of independently seeded changes and defect triage (appended to the claim texts above)
EXTRA = {
    "C20": " Round 3: parameters of one operation keep distinct identifiers and none is merged away (= R4.4). Round 4: the tag grouping key is at least as coarse as the names derived from a tag; references are resolved by exact name; a sanitised registry key never shadows another declared schema. Round 5: no named schema is filtered out between de-collision and emission; made-up names never equal a declared schema's name. Rounds 6-7: nothing rewrites a probed name before it is recorded; tag attributes and model class names are kept apart from the names the generated classes / modules use themselves (table agreements read from the templates).",
    "C04": " Round 3: an object occurring twice in a body is serialised twice (visited set = recursion stack); the transport forwards empty/falsy bodies unchanged. Round 4: the path template reaches the URL unchanged apart from placeholder renaming; the overload implementation selects a media type's branch by the presence of its body argument. Round 5: the None-stripping pass never drops an element of a list; hook registration descends into every field of a body model. Rounds 6-7: the primary content type is one the operation declares (constants are tested for membership); one awaited call issues one request (a single send site in the transport); header values are rendered as text; path arguments are percent-encoded. Round 8: the caller's mapping `params` is never flattened into (name, value) pairs where plugin parameters are merged (list value = repeated name only in mapping form).",
    "C01": " Added: a quoted forward reference is never an operand of `|` (optional self-references are quoted as one union); the tag modules client.py imports are the ones written (grouping agreement shared with C07). RenderContext's completion of incomplete internal module paths never applies to a module of the core package. Round 3: spec text after a `#` has every line boundary removed (R15.1 comment holes, string concatenations included); the signature's parameter list is sorted required-first as the last step; secondary-response arms emit a value-return only when the operation is not streaming; stored parameter names are fixed points of the sanitiser the generators re-apply. Round 4: enum members of one class get distinct names; the overload signatures carry no default in front of the keyword-only `*`; the core test in front of path completion holds for the core package itself and its sub-modules (evaluated). Round 5: a schema object outside the registry that is given a class name gets its module stem in the same place; imports executed when a shipped runtime module is imported are stdlib / httpx / cattrs / relative. Rounds 6-7: no import-registering method of the render context is skipped on a record that outlives the per-file reset; the regenerated alias module imports both base classes unconditionally; a dataclass field never takes the name of an import the class body uses; a model class never takes a name the endpoint modules import and use themselves. Round 8: every statically known type name a resolver branch answers with is registered as an import in that branch's function (set comparison per function; the descriptive import fields of ResolvedType have no consumer).",
    "C02": " Added: colliding property names keep distinct fields (rename-until-unused pattern); the recursion context (depth override, allow_self_reference) is handed to every recursive parse call; no registration-vetoing flag is raised before the registration decision. Round 3: the type resolvers look schemas up by the exact IR name; a known name-content heuristic whose co-conjuncts change is reported again (finding identity includes them). Round 4: the alias decision is false for every schema with properties (evaluated over type/enum/oneOf/anyOf); oneOf/anyOf drop only members without any structure; the registry key never shadows another declared name and references find registered schemas through a raw-name index (no order-dependent second parse). Round 5: the by-name fallback is evaluated over the type domain (integer and number are different kinds); sibling inline property schemas get distinct made-up names; a made-up name is tested against the declared names before it is used; the cycle tracker's exit completes the schema unconditionally. Rounds 6-7: an allOf merge that met a base still on the parsing stack is completed once all schemas are parsed (transitively); the by-name lookup that binds a cycle placeholder is not refused on account of the target's kind; no named schema is filtered out between de-collision and emission. Round 8: the filter that selects what the completion pass revisits is followed as well.",
    "C03": " Added: the two composition resolvers (oneOf / anyOf copies) return the same results; type-array nullability is read from the document node at every sibling site. Round 3: every discriminator value has a dispatch entry (= R14.5); every Python type chosen for a string format encodes back to a JSON string. Round 4: wire keys are emitted with ensure_ascii=False; union variants are tried in declared order; a field the Meta map does not list keeps its own name as wire key in both directions. Round 5: the resolver's by-name fallback never merges kinds; the union decoder reads the discriminator from the type as given and keeps Annotated members whole. Rounds 6-7: a JSON scalar of a primitive union is decoded as the variant of its own type; nothing but `null` is filtered out of an `enum` list; the hook factories' type resolver has no shortcut around get_type_hints. Round 8: a dict comprehension keyed by anything but the value counts as an enum filter.",
    "C05": " Added: every declared media type passes the streaming classification in the loader; the handler's type-alias tests exclude what ModelVisitor's classification excludes (enums are classes). Round 3: call-local memo tables of the loader are keyed by every loop-varying input of the stored value (a shared component response keeps its own status code per reference). Round 4: the streaming body yields raw bytes exactly when the annotated item type is bytes; each branch of the multi-media-type chain accepts exactly its declared type. Round 5: the union decoder keeps the discriminator metadata; the class name synthesized for an unnamed inline response body depends on the response, not on the operation alone. Rounds 6-7: the stream decoder follows the recorded stream format; a schema-less media type counts as 'no schema'; a primary response declared as `2XX` gets a success arm, written after every exact-status arm. Round 8: int-for-float clause of the union primitive test (= R14.15).",
    "C06": " Added: the error raised by the transport is built from plain reads (nothing that can itself raise); the alias classes stay importable for shared cores (shared-core predicate of C11 over symbolic layouts). Round 3: the same loader memo rule; the exception registry is read-modify-write-union (alias classes of other clients survive). Round 4: the alias module regenerated for the union of all clients imports both base classes unconditionally. Round 5: the registry of a core contained in the regenerated package survives at any depth; the bundled transport never switches redirect-following on. Rounds 6-7: the generated dispatch (abstractly interpreted with guarded wildcard arms and boolean path facts) classifies undeclared / range-declared 4xx / 5xx before the catch-all; the transport sends once per call so every answer passes the status guard; building the error object is total (constructors, `.text`); model classes never shadow the exception aliases. Round 9: a send site of the transport that does not buffer the body needs aread() in the raising branch before the error is built from the body.",
    "C07": " Added: str-enum options are compared by value; the tag grouping key is at least as coarse as the module/class names derived from a tag (character-class containment by string-shape interpretation). Round 3: every HTTPMethod member passes the path-item key filter (skip tests evaluated per member); the CLEAN strategy compares case-folded values on both sides. Round 4: a rendered method is never served from a cache keyed by the operation alone (rendering registers imports per module); sanitize_method_name yields ASCII identifiers for every input. Round 5: no key of the Paths Object other than an `x-` extension is filtered out before the operations parser (filter evaluated per key); the list of rendered methods reaches the class writer whole. Rounds 6-7: no tag attribute of APIClient equals a member name of the class (fixed member names read from the class template, refused by the sanitiser); a `$ref` Path Item is resolved or rejected and an unknown key holding a mapping raises; a recognised method key is never skipped on account of its value. Round 9: a loop that follows Path Item references overlays each hop only with fields computed inside the loop.",
    "C08": " Added: the terminal-state transition depends only on name and state; every declared schema ends up registered (registration rules shared with C02). Round 3: parsed_schemas only grows during a load (no del/pop/clear outside the reset API), so tracker state and registry stay in step. Round 4: every path through enter changes the depth by +1 and through exit by -1 (0 at depth 0); every default depth limit x 6 frames per depth unit fits CPython's default recursion limit.",
    "C09": " Added: compare-only generation compares the core for every layout in which it lies outside the client package (guard evaluated over symbolic layouts incl. textual-prefix siblings); the registry entry of a client is overwritten, never kept. Round 3: a keyed sort of an unordered collection must use a key that cannot tie (element itself, tuple ending in the element, offset of the delimited element); compare-only generation creates the ancestor __init__.py files that direct generation creates. Round 4: both operands of every relative-path computation in RenderContext are normalised the same way (lexical or symlink-resolved). Declined: an external tool's command-line flag (`ruff --force-exclude`). Round 5: the comparison leaves no generated file out; an existing output package and force=False always select the compare-only branch (the package directory itself is tested); nothing read from outside the process is memoised. Rounds 6-7: file times are ambient values; the self-import decision compares the file's own directory, not any ancestor; both branches create the same ancestor `__init__.py` files; ruff runs `--isolated`; the comparison (modelled independently of its spelling) walks both trees, every file, and flags stale files.",
    "C10": " Added: the same diff-coverage rule; a write path built from the parent of a directory the function was given (a sibling write) is a violation. Round 4: `with suppress(...)` around a write of generated output counts as a swallowing handler; the in-place rewriting tools get generated files only, never a directory obtained by climbing. Round 5: the mode switch tests the output package directory itself; no memoised outside reads; the comparison covers every generated file. Rounds 6-7: every ruff sub-process runs with `--no-cache` and `--isolated`; the function holding the force / exists switch is found by shape, so clean-up helpers of a wrapper are judged by the destructive-operations table.",
    "C11": " Added: the import header of the regenerated alias file covers every base class the union of codes can need; string-prefix predicates are modelled by the path algebra; the shared-core predicate must also hold for a core embedded in the first client's package (it becomes shared when a later client names it); a removal of the output package that precedes the exception emitter carries the registry of a contained core over. Round 4: a client's registry entry is a function of its own codes only; the registry rescue around the forced removal holds for a core at any depth below the removed directory (guard evaluated by the path algebra). Round 5: generator and emitter agree on the registry file name. Rounds 6-7: no delete operation of the generator targets a path derived from the core package; emitted line lists are joined with real line breaks.",
    "C12": " Added: producers of dot-relative module paths (RenderContext path helpers) may only feed add_relative_import, never an absolute import registration; the post-processor (the only other writer of generated files) never receives the runtime copies. Round 3: every module-name literal that can flow into a dynamic module expression (conditional arms, `or` operands, all definitions of the locals) passes the allow-list. Round 4: the runtime-copy filter compares resolved paths on both sides; RenderContext never completes a core module path (root or sub-module) into the client package. Round 5: the post-processor's tools are given files, never directories; the non-force comparison covers the runtime copies. Rounds 6-7: no call in a runtime file takes a string that names the generator distribution / package.",
    "C13": " Added: every EndpointVisitor is built over the schema registry (a mock signature otherwise differs for inline item types); a consumer that reads the coroutine/async-generator nature from the single line closing a rendered signature obliges the signature writer to keep the whole return annotation on that line; instance-level memo tables of the shared endpoint generators are keyed by every parameter the value is computed from. Round 3: no function of visit/endpoint changes its IROperation (or an alias of one of its attributes) in place. Round 4: the AsyncIterator sniff is the whole coroutine/async-generator decision (no conjunct over other state). Round 5: IR elements reached through a loop over an operation's attributes are not changed in place either. Rounds 6-7: the emitter that renames colliding operation ids in the shared IR dominates every emitter that derives method names from them; a streamed `2XX` or `default` response is yielded by the client method (flag of the wildcard arm evaluated); the self-import decision looks at the file's package; model classes never shadow `Protocol`. Round 8: handler and signature take the streaming decision from the same predicate (a method test in one only is a disagreement).",
    "C14": " Added: the generated get_mapping() has one entry per discriminator value (written from the spec's mapping or an item-wise sequence of it, never from a re-keyed dict); no converter function memoises per type (functools cache / table) a sequence derived from the member order of that type (typing.Union equality ignores order). Round 3: named union/array members are expanded to their underlying type only when primitive (decision evaluated over the type domain); the discriminator-enum collector consults the mapping on every path to 'skip variant'. Round 4: every loop of _structure_union over the union members keeps get_args order; the IR's discriminator mapping is the document's mapping, unfiltered. Round 5: the discriminator metadata is read from the type as handed in and members are never unwrapped; required-ness of variants is exact (rules of C02). Rounds 6-7: a discriminator without mapping dispatches through an implicit mapping; the entry point structures into the type as given (no re-binding of the type parameter); primitive variants are narrowed by the payload's own JSON type before the coercing loop. Round 8: the float variant of a union accepts JSON integers (bool excluded).",
    "C15": " Added: json.dumps used as a Python-literal maker for spec text passes ensure_ascii=False (non-BMP characters survive); re-splitting is judged by provenance, escaping helpers are recognised by their bodies. Round 4: no character-removing step follows docstring escaping; a plain value emitted as whole line(s) carries no spec text that bypassed every sanitiser. Round 5: the line scanners that cut Protocol stubs / mock methods out of a rendered method end at the implementation signature. Rounds 6-7: the line funnel (write_line / append) hands text on unchanged; a hole ending at the closing triple quote escapes a final quote; nothing trims an escaped value afterwards (also when a helper did the escaping); enum-typed defaults are resolved by value against the generator's own member list. Round 9: enum member values reach the emitted literal converted to the base type only (no trim/case/replace/slice on the chain from schema.enum).",
    "C16": " Added: the raw-dict fallback of union decoding applies to dict[str, Any] only (guard evaluated over {str, other} x {Any, other}); no value computed from a class is memoised on the class and read back through an inheriting lookup. Round 3: the None-stripping pass descends into every dict and list. Round 4: a field the Meta map does not list keeps its own name as wire key in both directions. Round 5: a process-wide 'already registered' record identifies classes by the object, never by names only. Rounds 6-7: the Meta key maps are collected over the whole MRO; rejected union variants keep their nested error detail; the per-class hooks hand the payload / instance on unchanged; the field-type resolver always reaches get_type_hints for a dataclass. Round 8: nothing but the data preview is truncated in the nested error detail, helpers included.",
    "C17": " Added: where plugin-added params/cookies are merged into the caller's value, that value is converted with dict() only under a type test. Round 3: the credential a bundled plugin writes is built from its stored state, never from the raw result of an awaited callback. Round 4: the bearer-token shortcut is written after the per-request headers were merged. Rounds 6-7: every header store after the first layer is case-insensitive (the verified helper `set_header`, whose calls are read as the plain header writes the layering rules look for); plugin-added query parameters are merged onto the query of the request URL and plugin-added cookies extend an existing Cookie header (httpx's replace / drop behaviour is part of the trusted base). Round 8: no `.items()` of a caller-supplied value is spliced into a pair list in the merge of plugin params.",
    "C18": " Added: the joined data reaches the event unchanged (no strip / replace on it). Round 3: a value whose truthiness guards a yield is an instance of a class without __bool__/__len__. Round 4: iter_sse tests and accumulates each line of aiter_lines() unmodified; the field split is at the first colon also when written with partition. Round 5: what a decoder has buffered lives in the call, never in a class-level / module-level / default-argument container. Rounds 6-7: comment lines never decide a dispatch (a block of comments only is not an event). Round 9: containers the decoders append to are unbounded and lose nothing before the yield (no deque maxlen, self-slice, delete, discarded pop).",
    "C19": " Added: the recursion context is threaded through every recursive parse (declaration-order independence); a strict JSON parse is selected by metadata, never by sniffing the text. Round 3: raw document keys are never ordered against each other (sorted/min/max over items/keys need a str key); no local of an items-loop carries a value from one entry to the next. Round 4: memo tables kept on the parsing context are keyed by every parameter the stored conversion depends on; references find registered schemas by declared name (raw-name index); names invented for inline schemas must not be a constant numbered in encounter order (two findings). Round 5: sibling inline property schemas get distinct made-up names; made-up names are tested against the declared names. Rounds 6-7: values read from a slot of a shared variant schema are kept per variant before the slot is rewritten; allOf merges and placeholder bindings do not depend on declaration order (= R2.22, R2.11).",
}
ROBUST = (" Recognition is by role and shape (parameters, loop targets, single-definition chasing, metavariable patterns, polarity-normalised guards), not by local"
          " variable names; where a function as written does not show a pattern, the same function with calls to helpers of its own module inlined is examined.")

def main() -> int:
    props = [json.loads(l)["id"] for l in open(os.path.join(HERE, "properties.jsonl"))]
    checks = []
    na = []
    for pid in props:
        c = CLAIMS.get(pid)
        if c and os.path.exists(os.path.join(HERE, "rules", f"{pid.lower()}.py")):
            checks.append(
                {
                    "property_id": pid,
                    "quick_cmd": f"./check {pid} --tier quick",
                    "thorough_cmd": f"./check {pid} --tier thorough",
                    "evidence_file": f"/verif/evidence/{pid}.json",
                    "replay_cmd_template": f"./check {pid} --replay {{path}}",
                    "engine": "sa",
                    "level_claimed": {"category": "other", "text": c["text"] + EXTRA.get(pid, "") + ROBUST, "design_ref": c["ref"]},
                    "level_note": c.get("note", NOTE),
                    "technique": "static analysis: " + c["technique"],
                }
            )
        else:
            na.append({"property_id": pid, "reason": NOT_APPLICABLE.get(pid, PENDING)})
    m = {
        "version": 1,
        "setup_cmd": "true",
        "hooks": {
            "guard": "PYOPENAPI_GEN_VERIF",
            "enable": "no source hooks exist: every check is a static analysis of /repo's working tree; the variable is never read by pyopenapi_gen",
            "baseline_off_cmd": "cd /repo && /venv/bin/python -m pytest -ra -q -p no:cacheprovider --timeout=900 --continue-on-collection-errors",
            "source_commits": [],
            "add_only": True,
        },
        "engines": [
            {
                "name": "sa",
                "path": "/verif/sa",
                "serves_properties": [c["property_id"] for c in checks],
                "kind_free_text": "repository-specific static analysis in pure Python (ast): source model + callee resolution, "
                "statement-level CFG with exceptional edges and finally duplication, disjunctive forward dataflow with path "
                "witnesses, dominators/post-dominators, call graph + SCCs, emit-template/hole extraction with lexical context, "
                "taint, string-shape and interval abstract domains; rules/cNN.py hold the per-property rules",
            }
        ],
        "checks": checks,
        "notes": "Every check parses /repo's current working tree on each run (nothing is cached across runs), reports constructs "
        "(file:line, function, path) and exits 0/1/2 = holds / VIOLATION / ANALYSIS-ERROR. known_findings.json lists recorded "
        "defects; `fix:` commits in /repo are recorded there under `fixed`.",
        "not_applicable": na,
    }
    import jsonschema

    jsonschema.validate(m, json.load(open("/root/.vp/MANIFEST.schema.json")))
    with open(os.path.join(HERE, "MANIFEST.json"), "w") as f:
        json.dump(m, f, indent=1)
        f.write("\n")
    print(f"MANIFEST.json: {len(checks)} checks, {len(na)} not_applicable; valid")
    return 0


if __name__ == "__main__":
    sys.exit(main())
