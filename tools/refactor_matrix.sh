#!/bin/sh
# tools/refactor_matrix.sh [batch1|batch2]  - run all 20 checks on every stored behaviour-preserving refactoring (selftest/refactors/<batch>/*.diff),
# ten at a time, and print one line per refactoring: empty = silent, otherwise the checks that exit 1 (V, with rules) or 2 (AE); PATCH-FAILED when a
# later fix: commit changed the code the refactoring edits.  Not a registered check (regression instrument, see DESIGN.md 6.3).
if [ "$1" = "--one" ]; then
  f="$2"; L=$(basename "$f" .diff)
  T=$(mktemp -d /tmp/rm.XXXXXX); mkdir -p "$T/repo" && cp -r /repo/src "$T/repo/src"
  if ! ( cd "$T/repo" && patch -p1 -s --no-backup-if-mismatch < "$f" ) >/dev/null 2>&1; then echo "$L: PATCH-FAILED"; rm -rf "$T"; exit 0; fi
  OUT=""
  for i in 01 02 03 04 05 06 07 08 09 10 11 12 13 14 15 16 17 18 19 20; do
    R=$(VERIF_NO_EVIDENCE=1 /verif/check C$i --tier quick --repo "$T/repo" 2>/dev/null); rc=$?
    [ $rc -eq 1 ] && OUT="$OUT C$i=V($(echo "$R" | grep -o '^  R[0-9.]*' | sort -u | tr -d ' ' | tr '\n' ',' | sed 's/,$//'))"
    [ $rc -eq 2 ] && OUT="$OUT C$i=AE"
  done
  echo "$L:$OUT"; rm -rf "$T"; exit 0
fi
B="${1:-batch2}"
ls /verif/selftest/refactors/$B/*.diff | xargs -P 10 -n 1 "$0" --one | sort
