#!/bin/sh
# tools/try_seed.sh <patch.diff> <PROP> [more PROPs...]  - run checks against a scratch copy of /repo with the patch applied
P="$1"; shift
D=$(mktemp -d /tmp/seedtry.XXXXXX)
mkdir -p "$D/repo" && cp -r /repo/src "$D/repo/src"
( cd "$D/repo" && patch -p1 -s --no-backup-if-mismatch < "$P" ) || { echo "PATCH-FAILED $P"; rm -rf "$D"; exit 3; }
rc=0
for prop in "$@"; do
  VERIF_NO_EVIDENCE=1 /verif/check "$prop" --tier quick --repo "$D/repo" | grep -v "^KNOWN-FINDING" | head -${LINES_MAX:-8}
done
rm -rf "$D"
