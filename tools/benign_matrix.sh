#!/bin/sh
# tools/benign_matrix.sh <dir with patch.diff>  -> "<label>: <PROP>=V|AE ..." for every check that is NOT silent on a behaviour-preserving patch
D="${1%/}"; L="$(basename "$(dirname "$D")")_$(basename "$D")"
T=$(mktemp -d /tmp/bm.XXXXXX)
mkdir -p "$T/repo" && cp -r /repo/src "$T/repo/src"
( cd "$T/repo" && patch -p1 -s --no-backup-if-mismatch < "$D/patch.diff" ) >/dev/null 2>&1 || { echo "$L: PATCH-FAILED"; rm -rf "$T"; exit 0; }
OUT=""
for i in 01 02 03 04 05 06 07 08 09 10 11 12 13 14 15 16 17 18 19 20; do
  R=$(VERIF_NO_EVIDENCE=1 /verif/check C$i --tier quick --repo "$T/repo" 2>/dev/null); rc=$?
  if [ $rc -eq 1 ]; then OUT="$OUT C$i=V($(echo "$R" | grep -o '^  R[0-9.]*' | sort -u | tr -d ' ' | tr '\n' ',' | sed 's/,$//'))"; fi
  if [ $rc -eq 2 ]; then OUT="$OUT C$i=AE"; fi
done
echo "$L:$OUT"
rm -rf "$T"
