#!/bin/sh
# tools/rebase_finish.sh <label> [note]  - after the conflicts in /tmp/rb_wt are resolved: store the re-based patch, keep the original, re-confirm the demonstration
# (clean /repo -> 0, patched copy -> non-zero) and note the re-basing in meta.json.  The test suite is not re-run here (tools/confirm_seed.sh does that).
L="$1"; NOTE="${2:-re-based onto the tree with the later fix: commits (same edit at the same site)}"; W=/tmp/rb_wt; D=/verif/seeded/$L
cd "$W" || exit 3
if grep -rl "^<<<<<<< \|^>>>>>>> " src >/dev/null 2>&1; then echo "$L: conflict markers left"; exit 3; fi
git add -A; git diff --cached HEAD > /tmp/rb_$L.diff
[ -s /tmp/rb_$L.diff ] || { echo "$L: empty diff"; exit 3; }
T=$(mktemp -d /tmp/rbc.XXXXXX); cp -r /repo/src "$T/src"; ( cd "$T" && patch -p1 -s --no-backup-if-mismatch < /tmp/rb_$L.diff ) || { echo "$L: re-based patch does not apply to /repo"; rm -rf "$T"; exit 3; }
/venv/bin/python -c "import compileall,sys; sys.exit(0 if compileall.compile_dir('$T/src/pyopenapi_gen', quiet=1) else 1)" >/dev/null 2>&1 || { echo "$L: patched tree does not compile"; rm -rf "$T"; exit 3; }
( cd /tmp && PYTHONPATH=/repo/src timeout 600 /venv/bin/python "$D/demo.py" >/tmp/rb_clean.out 2>&1 ); C=$?
( cd /tmp && PYTHONPATH="$T/src" timeout 600 /venv/bin/python "$D/demo.py" >/tmp/rb_patched.out 2>&1 ); P=$?
rm -rf "$T" /tmp/pyopenapi_gen_*.log
echo "$L demo clean=$C patched=$P"
if [ "$C" = 0 ] && [ "$P" != 0 ]; then
  [ -f "$D/patch_original.diff" ] || cp "$D/patch.diff" "$D/patch_original.diff"
  cp /tmp/rb_$L.diff "$D/patch.diff"
  /venv/bin/python - "$D" "$NOTE" "$C" "$P" <<'PY'
import json,sys,subprocess
d,note,c,p=sys.argv[1:5]
m=json.load(open(d+"/meta.json"))
head=subprocess.check_output(["git","-C","/repo","log","-1","--format=%h"]).decode().strip()
m["rebased"]=f"{note}; original kept as patch_original.diff; demonstration re-run on /repo {head}: clean {c}, patched {p}"
json.dump(m,open(d+"/meta.json","w"),indent=1,ensure_ascii=False)
PY
  echo "$L stored"
else echo "$L NOT stored (demo does not separate clean from patched)"; tail -3 /tmp/rb_patched.out; fi
