#!/bin/sh
# tools/rebase_seed.sh <label>  - try a 3-way application of seeded/<label>/patch.diff in the scratch worktree /tmp/rb_wt (a worktree of /repo HEAD);
# prints the files left with conflict markers. Resolve them there by hand, then run tools/rebase_finish.sh <label>.  Not part of any check.
L="$1"; W=/tmp/rb_wt
[ -d "$W" ] || git -C /repo worktree add --detach "$W" HEAD >/dev/null 2>&1
cd "$W" && git checkout -q --detach "$(git -C /repo rev-parse HEAD)" 2>/dev/null; git reset -q --hard; git clean -fdq
P=/verif/seeded/$L/patch.diff
git apply -3 "$P" 2>/tmp/rb_err.txt || true
U=$(git diff --name-only --diff-filter=U)
if [ -n "$U" ]; then echo "$L CONFLICT in: $U"; grep -n "<<<<<<<\|>>>>>>>" $U | head -20; else
  if git diff --cached --quiet HEAD && git diff --quiet; then echo "$L NOT APPLIED: $(tail -2 /tmp/rb_err.txt | tr '\n' ' ')"; else echo "$L applied cleanly by 3-way merge"; fi; fi
