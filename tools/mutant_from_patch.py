#!/venv/bin/python
"""tools/mutant_from_patch.py <patch.diff> <name> <expected rule>  - print a MUTANTS.append(...) line (selftest/mutants_cNN.py format) for a
single-file patch: `old` is the smallest block of lines of the current /repo file that covers every changed line, widened until it is unique.
Not part of any check."""
import os, re, shutil, subprocess, sys, tempfile

patch, name, expect = sys.argv[1:4]
files = sorted(set(re.findall(r"^\+\+\+ b/(\S+)", open(patch).read(), re.M)))
assert len(files) == 1, files
rel = files[0]
tmp = tempfile.mkdtemp(prefix="mfp_")
try:
    os.makedirs(os.path.join(tmp, os.path.dirname(rel)))
    shutil.copy(os.path.join("/repo", rel), os.path.join(tmp, rel))
    subprocess.run(["patch", "-p1", "-s", "--no-backup-if-mismatch", "-i", os.path.abspath(patch)], cwd=tmp, check=True)
    a = open(os.path.join("/repo", rel)).read().splitlines(keepends=True)
    b = open(os.path.join(tmp, rel)).read().splitlines(keepends=True)
finally:
    shutil.rmtree(tmp)
i = 0
while i < min(len(a), len(b)) and a[i] == b[i]:
    i += 1
j = 0
while j < min(len(a), len(b)) - i and a[len(a) - 1 - j] == b[len(b) - 1 - j]:
    j += 1
lo, hi_a, hi_b = i, len(a) - j, len(b) - j
text = "".join(a)
while True:
    old = "".join(a[lo:hi_a])
    if old and text.count(old) == 1:
        break
    if lo > 0:
        lo -= 1
    else:
        hi_a += 1; hi_b += 1
new = "".join(b[lo:hi_b])
relfile = rel.split("src/pyopenapi_gen/", 1)[1]
print(f"MUTANTS.append(dict(name={name!r}, file={relfile!r}, expect={expect!r}, old={old!r}, new={new!r}))")
