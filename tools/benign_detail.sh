#!/bin/sh
# tools/benign_detail.sh <dir with patch.diff> <PROP...>: print violation / error lines of the given checks on the patched copy
D="${1%/}"; shift
T=$(mktemp -d /tmp/bd.XXXXXX)
mkdir -p "$T/repo" && cp -r /repo/src "$T/repo/src"
( cd "$T/repo" && patch -p1 -s --no-backup-if-mismatch < "$D/patch.diff" ) >/dev/null 2>&1 || { echo "PATCH-FAILED"; rm -rf "$T"; exit 0; }
for p in "$@"; do VERIF_NO_EVIDENCE=1 /verif/check $p --tier quick --repo "$T/repo" 2>/dev/null | grep -E "^  R|ANALYSIS-ERROR" | cut -c1-${W:-330}; done
rm -rf "$T"
